exec(open('proto.py').read().split("# ---- reference surfaces")[0])
rng=random.Random(4)
def r(a,b): return round(rng.uniform(a,b),3)
def randrotm():
    q=np.array([rng.gauss(0,1) for _ in range(4)]); q/=np.linalg.norm(q); w,x,y,z=q
    return np.array([[1-2*(y*y+z*z),2*(x*y-z*w),2*(x*z+y*w)],[2*(x*y+z*w),1-2*(x*x+z*z),2*(y*z-x*w)],[2*(x*z-y*w),2*(y*z+x*w),1-2*(x*x+y*y)]])
def trcard(n,O,B): return f"tr{n} "+' '.join(repr(float(x)) for x in O)+' '+' '.join(repr(float(v)) for v in B.flatten())
def centre(out,rad):
    res=[]
    for l in out.splitlines():
        t=l.split()
        if len(t)>=6 and t[0]=='SURF' and t[2]=='SPHERE' and abs(float(t[6])-rad)<1e-9: res.append(np.array([float(x) for x in t[3:6]]))
    return res
ok=0;bad=[]
for rep in range(12):
    O1=np.array([r(-2,2),r(-2,2),r(-2,2)]); B1=randrotm(); O2=np.array([r(-1,1),r(-1,1),r(-1,1)]); B2=randrotm(); c=np.array([r(-1,1),r(-1,1),r(-1,1)])
    mode=rep%4
    # mode0: fill=2 (1) ; inner fill=3 (2).  mode1: outer container trcl=1 fill=2 (no fill tr). mode2: outer both trcl=1 and fill=2 (2) -> trcl ignored for filler ; mode3: filler cell in u=3 has trcl=2, outer fill=3 (1)
    if mode==0:
        cells=["1 0 -10 fill=2 (1) imp:n=1","2 0 -11 u=2 fill=3 (2) imp:n=1","21 1 -1. 11 u=2 imp:n=1","3 2 -2. -12 u=3 imp:n=1","31 1 -1. 12 u=3 imp:n=1"]
        exp=O1+B1.T@(O2+B2.T@c)
    elif mode==1:
        cells=["1 0 -10 fill=3 trcl=1 imp:n=1","3 2 -2. -12 u=3 imp:n=1","31 1 -1. 12 u=3 imp:n=1"]
        exp=O1+B1.T@c
    elif mode==2:
        cells=["1 0 -10 fill=3 (2) trcl=1 imp:n=1","3 2 -2. -12 u=3 imp:n=1","31 1 -1. 12 u=3 imp:n=1"]
        exp=O2+B2.T@c
    else:
        cells=["1 0 -10 fill=3 (1) imp:n=1","3 2 -2. -12 u=3 trcl=2 imp:n=1","31 1 -1. #3 u=3 imp:n=1"]
        exp=O1+B1.T@(O2+B2.T@c)
    deck="t\n"+"\n".join(cells)+"\n99 0 10 imp:n=0\n\n10 so 30\n11 so 20\n12 s "+' '.join(map(str,c))+" 0.37\n\nm1 13027 1.\nm2 13027 1.\n"+trcard(1,O1,B1)+"\n"+trcard(2,O2,B2)+"\n"
    try: out=convert(deck)
    except Exception as e: bad.append((mode,'EXC',repr(e)[:100])); continue
    cs=centre(out,0.37)
    good=[x for x in cs if np.allclose(x,exp,atol=1e-9)]
    if good and len(cs)>=1 and all(np.allclose(x,exp,atol=1e-9) or np.allclose(x,c,atol=1e-12) for x in cs): ok+=1
    else: bad.append((mode,exp,cs))
print('ok',ok,'bad',bad)
