exec(open('proto.py').read().split("rng=random.Random(1)")[0])
rng=random.Random(2)
def r(a,b): return round(rng.uniform(a,b),3)
def randrot(kind):
    if kind=='generic':
        q=np.array([rng.gauss(0,1) for _ in range(4)]); q/=np.linalg.norm(q); w,x,y,z=q
        return np.array([[1-2*(y*y+z*z),2*(x*y-z*w),2*(x*z+y*w)],[2*(x*y+z*w),1-2*(x*x+z*z),2*(y*z-x*w)],[2*(x*z-y*w),2*(y*z+x*w),1-2*(x*x+y*y)]])
    if kind=='flipx': return np.diag([-1.,1.,-1.])   # 180 about y
    if kind=='flipy': return np.diag([-1.,-1.,1.])
    if kind=='flipz': return np.diag([1.,-1.,-1.])
    if kind=='perm': return np.array([[0.,1,0],[0,0,1],[1,0,0]])
    if kind=='perm2': return np.array([[0.,0,1],[1,0,0],[0,1,0]])
    if kind=='rotz90': return np.array([[0.,1,0],[-1,0,0],[0,0,1]])
surf_cases=lambda:[('px',[r(-3,3)]),('p',[r(-1,1),r(-1,1),r(-1,1),r(-3,3)]),('s',[r(-2,2),r(-2,2),r(-2,2),r(1,3)]),
   ('c/y',[r(-2,2),r(-2,2),r(1,3)]),('cz',[r(1,3)]),('kx',[r(-2,2),r(0.1,3)]),('ky',[r(-2,2),r(0.1,3),1]),('kz',[r(-2,2),r(0.1,3),-1]),
   ('k/x',[r(-2,2),r(-2,2),r(-2,2),r(0.1,3),-1]),('k/z',[r(-2,2),r(-2,2),r(-2,2),r(0.1,3),1]),
   ('sq',[r(0.2,2),r(0.2,2),r(-2,2),r(-1,1),r(-1,1),r(-1,1),r(-5,-1),r(-1,1),r(-1,1),r(-1,1)]),
   ('gq',[r(0.2,2),r(0.2,2),r(-2,2),r(-1,1),r(-1,1),r(-1,1),r(-1,1),r(-1,1),r(-1,1),r(-5,-1)]),
   ('tx',[r(-2,2),r(-2,2),r(-2,2),r(2,3),r(0.3,1),r(0.6,1)]),('tz',[r(-2,2),r(-2,2),r(-2,2),r(2,3),r(0.3,1),r(0.6,1)])]
bad={}; n=0
for kind in ['generic','generic','flipx','flipy','flipz','perm','perm2','rotz90']:
  for star in (False,True):
    for mn,p in surf_cases():
        B=randrot(kind); O=np.array([r(-2,2),r(-2,2),r(-2,2)])
        if star:
            ent=[repr(math.degrees(math.acos(max(-1,min(1,v))))) for v in B.flatten()]
            trc='*tr5 '+' '.join(map(str,O))+' '+' '.join(ent)
        else:
            trc='tr5 '+' '.join(map(str,O))+' '+' '.join(repr(float(v)) for v in B.flatten())
        deck=f"t\n1 1 -1.0 -1 -9 imp:n=1\n2 2 -2.0 1 -9 imp:n=1\n99 0 9 imp:n=0\n\n1 5 {mn} {' '.join(map(str,p))}\n9 so 40\n\nm1 13027 1.\nm2 13027 1.\n{trc}\n"
        n+=1
        try: out=convert(deck)
        except Exception as e:
            bad.setdefault((kind,mn),[]).append(('EXC',repr(e)[:80])); continue
        surfs,trs,vols=parse_t4(out)
        P=np.random.default_rng(5).uniform(-7,7,(3000,3))
        Paux=(P-O)@B.T          # aux = B (p - O)
        f=ref(mn,p)(Paux)
        ok=np.abs(f)>1e-6
        c={}
        in1=invol(1,P,surfs,trs,vols,c); in2=invol(2,P,surfs,trs,vols,c)
        mism=ok&((in1!=(f<0))|(in2!=(f>0)))
        if mism.any(): bad.setdefault((kind,mn,star),[]).append(int(mism.sum()))
print('cases',n); 
for k,v in bad.items(): print(k,v)
