exec(open('proto.py').read().split("rng=random.Random(1)")[0])
rng=random.Random(3)
def r(a,b): return round(rng.uniform(a,b),3)
def randrotm():
    q=np.array([rng.gauss(0,1) for _ in range(4)]); q/=np.linalg.norm(q); w,x,y,z=q
    return np.array([[1-2*(y*y+z*z),2*(x*y-z*w),2*(x*z+y*w)],[2*(x*y+z*w),1-2*(x*x+z*z),2*(y*z-x*w)],[2*(x*z-y*w),2*(y*z+x*w),1-2*(x*x+y*y)]])
# each body: returns (params, facets) ; facets = list of functions P-> signed (positive outside); inside = all facets negative
def plane_f(n,pt): 
    n=np.array(n,float); pt=np.array(pt,float)
    return lambda P: (P-pt)@n
def body(kind):
    R=randrotm() if rng.random()<0.7 else np.eye(3)
    v=np.array([r(-2,2),r(-2,2),r(-2,2)])
    if kind=='rpp':
        lo=[r(-3,0) for _ in range(3)]; hi=[l+r(1,3) for l in lo]
        p=[lo[0],hi[0],lo[1],hi[1],lo[2],hi[2]]
        e=np.eye(3)
        return p,[plane_f(e[0],[hi[0],0,0]),plane_f(-e[0],[lo[0],0,0]),plane_f(e[1],[0,hi[1],0]),plane_f(-e[1],[0,lo[1],0]),plane_f(e[2],[0,0,hi[2]]),plane_f(-e[2],[0,0,lo[2]])]
    if kind=='box':
        L=[r(1,3),r(1,3),r(1,3)]; A=[R[:,i]*L[i] for i in range(3)]
        if rng.random()<0.5: A[0],A[1]=A[1],A[0]   # handedness
        if rng.random()<0.3: v=v+A[2]; A[2]=-A[2]
        p=list(v)+list(A[0])+list(A[1])+list(A[2]); f=[]
        for a in A: f+= [plane_f(a/np.linalg.norm(a), v+a), plane_f(-a/np.linalg.norm(a), v)]
        return p,f
    if kind=='sph':
        rad=r(1,3); return list(v)+[rad],[lambda P: np.sqrt(((P-v)**2).sum(1))-rad]
    if kind=='rcc':
        h=R[:,2]*r(1,4); rad=r(0.5,2); u=h/np.linalg.norm(h)
        cyl=lambda P: np.sqrt(np.maximum(((P-v)**2).sum(1)-((P-v)@u)**2,0))-rad
        return list(v)+list(h)+[rad],[cyl,plane_f(u,v+h),plane_f(-u,v)]
    if kind in('rhp9','rhp15'):
        h=R[:,2]*r(1,4); u=h/np.linalg.norm(h)
        if kind=='rhp9':
            rr=R[:,0]*r(1,2); 
            def rot(vv,ang): return vv*math.cos(ang)+np.cross(u,vv)*math.sin(ang)+u*(u@vv)*(1-math.cos(ang))
            ss=rot(rr,math.pi/3); tt=rot(rr,2*math.pi/3); p=list(v)+list(h)+list(rr)
        else:
            a0=rng.uniform(0,1); rr=(R[:,0]*math.cos(a0)+R[:,1]*math.sin(a0))*r(1,2)
            a1=a0+rng.uniform(0.8,1.3); ss=(R[:,0]*math.cos(a1)+R[:,1]*math.sin(a1))*r(1,2)
            a2=a1+rng.uniform(0.8,1.3); tt=(R[:,0]*math.cos(a2)+R[:,1]*math.sin(a2))*r(1,2)
            p=list(v)+list(h)+list(rr)+list(ss)+list(tt)
        f=[]
        for w in (rr,ss,tt):
            n=w/np.linalg.norm(w); f+=[plane_f(n,v+w),plane_f(-n,v-w)]
        f+=[plane_f(u,v+h),plane_f(-u,v)]
        return p,f
    if kind in('rec10','rec12'):
        h=R[:,2]*r(1,4); u=h/np.linalg.norm(h); a=r(1.5,3); b=r(0.5,1.4)
        v1=R[:,0]*a; v2=R[:,1]*b
        if rng.random()<0.5: v2=-v2
        p=list(v)+list(h)+list(v1)+(list(v2) if kind=='rec12' else [b])
        e1=R[:,0]; e2=R[:,1]
        cyl=lambda P: ((P-v)@e1/a)**2+((P-v)@e2/b)**2-1
        return p,[cyl,plane_f(u,v+h),plane_f(-u,v)]
    if kind=='trc':
        h=R[:,2]*r(1,4); u=h/np.linalg.norm(h); H=np.linalg.norm(h); r0=r(0.5,2.5); r1=r(0.5,2.5)
        if abs(r0-r1)<0.2: r1=r0+0.5
        def cone(P):
            t=((P-v)@u)/H; rad=np.sqrt(np.maximum(((P-v)**2).sum(1)-((P-v)@u)**2,0)); return rad-(r0+(r1-r0)*t)
        return list(v)+list(h)+[r0,r1],[cone,plane_f(u,v+h),plane_f(-u,v)]
    if kind=='ell-':
        a=r(1,3); b=r(0.5,2.5); ax=R[:,2]
        f=lambda P: ((P-v)@ax/a)**2+(((P-v)**2).sum(1)-((P-v)@ax)**2)/b**2-1
        return list(v)+list(ax*a)+[-b],[f]
    if kind=='wed':
        a=R[:,0]*r(1,3); b=R[:,1]*r(1,3); h=R[:,2]*r(1,3)
        if rng.random()<0.5: h=-h
        if rng.random()<0.5: a,b=b,a
        u=h/np.linalg.norm(h)
        # slant: plane through v+a, v+b containing h; outward normal away from v
        n=np.cross(b-a,h); n=n/np.linalg.norm(n)
        if (v-(v+a))@n>0: n=-n
        return list(v)+list(a)+list(b)+list(h),[plane_f(n,v+a),plane_f(-a/np.linalg.norm(a),v),plane_f(-b/np.linalg.norm(b),v),plane_f(u,v+h),plane_f(-u,v)]
bad={}; n=0
for kind in ['rpp','box','sph','rcc','rhp9','rhp15','rec10','rec12','trc','ell-','wed']:
  for rep in range(6):
    p,facets=body(kind)
    mn={'rhp9':'rhp','rhp15':'hex','rec10':'rec','rec12':'rec','ell-':'ell'}.get(kind,kind)
    nf=len(facets)
    cells=["1 1 -1.0 -1 -9 imp:n=1","2 2 -2.0 1 -9 imp:n=1"]
    cid=3
    if nf>1:
        for k in range(1,nf+1):
            cells.append(f"{cid} 1 -1.0 -1.{k} -9 imp:n=1"); cid+=1
            cells.append(f"{cid} 1 -1.0 1.{k} -9 imp:n=1"); cid+=1
    deck="t\n"+"\n".join(cells)+f"\n99 0 9 imp:n=0\n\n1 {mn} {' '.join(repr(float(x)) for x in p)}\n9 so 40\n\nm1 13027 1.\nm2 13027 1.\n"
    n+=1
    try: out=convert(deck)
    except Exception as e:
        bad.setdefault(kind,[]).append(('EXC',repr(e)[:100])); continue
    surfs,trs,vols=parse_t4(out)
    P=np.random.default_rng(5).uniform(-7,7,(4000,3))
    F=np.array([f(P) for f in facets])
    ok=(np.abs(F)>1e-6).all(0)
    inside=(F<0).all(0)
    c={}
    res=[]
    m1=ok&(invol(1,P,surfs,trs,vols,c)!=inside); m2=ok&(invol(2,P,surfs,trs,vols,c)!=~inside)
    if m1.any() or m2.any(): res.append(('body',int(m1.sum()),int(m2.sum())))
    cid=3
    if nf>1:
        for k in range(nf):
            a=ok&(invol(cid,P,surfs,trs,vols,c)!=(F[k]<0)); b=ok&(invol(cid+1,P,surfs,trs,vols,c)!=(F[k]>0)); cid+=2
            if a.any() or b.any(): res.append((f'facet{k+1}',int(a.sum()),int(b.sum())))
    if res: bad.setdefault(kind,[]).append(res)
print('cases',n)
for k,v in bad.items(): print(k,v)
