exec(open('proto.py').read().split("# ---- reference surfaces")[0])
rng=random.Random(7)
def r(a,b): return round(rng.uniform(a,b),3)
bad=[];ok=0
for rep in range(16):
    skew = rep%2==1
    # 2D lattice in x,y: planes pair1 normals n1, pair2 normals n2
    a1=np.array([r(1.5,2.5), 0,0]); a2=np.array([r(0.3,0.9) if skew else 0, r(1.0,2.0),0])
    # cell = {s*a1+t*a2, -.5<s,t<.5} + c0 ; planes: reciprocal normals
    c0=np.array([r(-.3,.3),r(-.3,.3),0])
    # normals: n1 perpendicular to a2 (in plane), n2 perpendicular to a1
    ez=np.array([0,0,1.]); n1=np.cross(a2,ez); n1/=np.linalg.norm(n1); 
    if n1@a1<0: n1=-n1
    n2=np.cross(ez,a1); n2/=np.linalg.norm(n2)
    if n2@a2<0: n2=-n2
    # planes: n1.x = n1.(c0 +- a1/2)
    def pl(n,pt): return f"p {n[0]!r} {n[1]!r} {n[2]!r} {float(n@pt)!r}"
    surf={1:pl(n1,c0+a1/2),2:pl(n1,c0-a1/2),3:pl(n2,c0+a2/2),4:pl(n2,c0-a2/2)}
    flip1=rng.random()<0.5; flip2=rng.random()<0.5
    # listed order: if not flipped: -1 2 -3 4 (first listed = +side plane) ; flipped: 2 -1 ...
    g1="-1 2" if not flip1 else "2 -1"; g2="-3 4" if not flip2 else "4 -3"
    i0,i1=-1,2; j0,j1=-2,1
    ni=i1-i0+1; nj=j1-j0+1
    # universes 1..ni*nj each with sphere radius unique
    arr=[]; ucells=[]; usurf=[]; k=0
    for j in range(j0,j1+1):
        for i in range(i0,i1+1):
            k+=1; u=100+k; rad=0.1+0.01*k; arr.append(u)
            ucells+= [f"{u}1 1 -1. -{u} u={u} imp:n=1", f"{u}2 2 -2. {u} u={u} imp:n=1"]
            usurf.append(f"{u} s 0.05 0.02 0 {rad}")
    deck="t\n"+f"5 0 {g1} {g2} lat=1 u=9 imp:n=1 fill={i0}:{i1} {j0}:{j1} 0:0 "+' '.join(map(str,arr))+"\n"+"\n".join(ucells)+"\n1 0 -10 fill=9 imp:n=1\n99 0 10 imp:n=0\n\n"+"\n".join(f"{k} {v}" for k,v in surf.items())+"\n10 so 30\n"+"\n".join(usurf)+"\n\nm1 13027 1.\nm2 13027 1.\n"
    try: out=convert(deck)
    except Exception as e: bad.append(('EXC',repr(e)[:100])); continue
    # expected: element (i,j) universe arr[(j-j0)*ni+(i-i0)] ; translation = si*i*a1 + sj*j*a2 with si=-1 if flipped
    good=True; k=0
    cent={}
    for l in out.splitlines():
        t=l.split()
        if len(t)>=7 and t[0]=='SURF' and t[2]=='SPHERE': cent.setdefault(round(float(t[6]),5),[]).append(np.array([float(x) for x in t[3:6]]))
    for j in range(j0,j1+1):
        for i in range(i0,i1+1):
            k+=1; rad=round(0.1+0.01*k,5)
            exp=np.array([0.05,0.02,0])+(-1 if flip1 else 1)*i*a1+(-1 if flip2 else 1)*j*a2
            got=cent.get(rad,[])
            if not any(np.allclose(g,exp,atol=1e-9) for g in got): good=False; bad.append((rep,skew,flip1,flip2,(i,j),exp,got)); break
        if not good: break
    ok+=good
print('ok',ok,'bad',bad[:3])
