import sys
sys.path.insert(0,'/tmp/w/proto')
exec(open("proto.py").read().split("# ---- T4 evaluator")[0])
base = """title line
1 1 -2.7 -1 2 -3 imp:n=1
2 2 -1.0 (1:-2) -3 imp:n=1 trcl=(1 0 0)
3 0 #1 #2 -3 imp:n=1
99 0 3 imp:n=0

1 cz 3
2 pz -1
3 so 20

m1 13027 1.
m2 1001 2 8016 1
tr4 1 2 3
"""
def body(t): return '\n'.join(t.splitlines()[3:])
ref_out = body(convert(base))
variants = {
 'upper': base.replace('cz','CZ').replace('pz','PZ').replace('so','SO').replace('imp:n','IMP:N').replace('trcl','TRCL').replace('m1 ','M1 ').replace('tr4','TR4'),
 'tabs': base.replace('1 1 -2.7 -1 2 -3','1\t1\t-2.7\t-1 2\t-3').replace('1 cz 3','1\tcz\t3'),
 'cont5': base.replace('1 1 -2.7 -1 2 -3 imp:n=1','1 1 -2.7 -1 2\n     -3 imp:n=1'),
 'contamp': base.replace('1 1 -2.7 -1 2 -3 imp:n=1','1 1 -2.7 -1 2 &\n-3 imp:n=1'),
 'contamp_comment': base.replace('1 1 -2.7 -1 2 -3 imp:n=1','1 1 -2.7 -1 2 & hello\n-3 imp:n=1'),
 'ccomment_inside': base.replace('1 1 -2.7 -1 2 -3 imp:n=1','1 1 -2.7 -1 2\nc a comment\n     -3 imp:n=1'),
 'dollar': base.replace('1 cz 3','1 cz 3 $ radius'),
 'ccomment_between': base.replace('2 pz -1','c comment\nC another\n2 pz -1'),
 'message': 'message: outp=foo\n\n'+base,
 'spaces': base.replace('(1:-2)','( 1 : -2 )').replace('#1 #2','# 1 #2'),
 'leading_blanks': base.replace('1 cz 3','   1 cz 3'),
 'fortran_surf': base.replace('1 cz 3','1 cz 3.0e0').replace('2 pz -1','2 pz -1.0+0'),
 'dexp_surf': base.replace('1 cz 3','1 cz 0.3d1'),
 'density_zeros': base.replace('-2.7 ','-2.70 ').replace('-1.0 ','-1.00 '),
 'no_final_newline': base.rstrip('\n'),
 'blank_with_spaces': base.replace('\n\n1 cz','\n   \n1 cz'),
 'trailing_ws': base.replace('1 cz 3','1 cz 3   '),
 'imp_upper_sp': base.replace('imp:n=1','IMP:N = 1'),
 'trcl_spaces': base.replace('trcl=(1 0 0)','trcl = ( 1 0 0 )'),
 'tab_cont': base.replace('1 1 -2.7 -1 2 -3 imp:n=1','1 1 -2.7 -1 2\n\t-3 imp:n=1'),
}
for k,v in variants.items():
    try:
        o=body(convert(v))
        print(f'{k:20s}', 'same' if o==ref_out else 'DIFF')
        if o!=ref_out:
            import difflib
            for l in list(difflib.unified_diff(ref_out.splitlines(),o.splitlines(),lineterm='',n=0))[:8]: print('     ',l)
    except BaseException as e:
        print(f'{k:20s}', 'EXC', type(e).__name__, str(e)[:90])
