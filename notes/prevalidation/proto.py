import sys, io, contextlib, math, random, re, os
import numpy as np
sys.argv=['x']
import tatsu
from tatsu.contexts.ctx import CanParse, Ctx
def allsubs(c):
    for s in c.__subclasses__():
        yield s; yield from allsubs(s)
for c in set(allsubs(CanParse)):
    if c is not Ctx and '_is_protocol' not in c.__dict__ and getattr(c,'_is_protocol',False): c._is_protocol=False
from t4_geom_convert.main import conversion, parse_args

def convert(text, extra=()):
    open('d.imcnp','w').write(text)
    buf=io.StringIO()
    with contextlib.redirect_stdout(buf):
        conversion(parse_args(['-o','d.t4','d.imcnp',*extra]))
    return open('d.t4').read()

# ---- T4 evaluator
def parse_t4(txt):
    surfs={}; trs={}; vols={}
    for line in txt.splitlines():
        line=line.split('//')[0].split()
        if not line: continue
        if line[0]=='TRANSFORM': trs[int(line[1])]=[float(x) for x in line[3:15]]
        elif line[0]=='SURF':
            sid=int(line[1]); i=2; tr=None
            if line[2]=='TRANSFORM': tr=int(line[3]); i=4
            surfs[sid]=(line[i],[float(x) for x in line[i+1:]],tr)
        elif line[0]=='VOLU':
            vid=int(line[1]); toks=line[3:]; plus=[];minus=[];op=None;fict=False;i=0
            while i<len(toks):
                t=toks[i]
                if t in('PLUS','MINUS'):
                    n=int(toks[i+1]); ids=[int(x) for x in toks[i+2:i+2+n]]; (plus if t=='PLUS' else minus).extend(ids); i+=2+n
                elif t in('UNION','INTE'):
                    n=int(toks[i+1]); op=(t,[int(x) for x in toks[i+2:i+2+n]]); i+=2+n
                elif t=='FICTIVE': fict=True;i+=1
                elif t=='ENDV': break
                else: raise ValueError(t)
            vols[vid]=(plus,minus,op,fict)
    return surfs,trs,vols
def fsurf(s,P,trs):
    typ,p,tr=s
    if tr is not None:
        t=np.array(trs[tr][:3]); R=np.array(trs[tr][3:]).reshape(3,3)
        P=(P-t)@R   # local = R^T (p - t)
    x,y,z=P[:,0],P[:,1],P[:,2]
    ax={'X':0,'Y':1,'Z':2}
    if typ in('PLANEX','PLANEY','PLANEZ'): return P[:,ax[typ[-1]]]-p[0]
    if typ=='PLANE': return p[0]*x+p[1]*y+p[2]*z+p[3]
    if typ=='SPHERE': return (x-p[0])**2+(y-p[1])**2+(z-p[2])**2-p[3]**2
    if typ in('CYLX','CYLY','CYLZ'):
        a=ax[typ[-1]]; o=[i for i in range(3) if i!=a]
        return (P[:,o[0]]-p[0])**2+(P[:,o[1]]-p[1])**2-p[2]**2
    if typ=='CYL':
        c=np.array(p[:3]); u=np.array(p[4:7]); u=u/np.linalg.norm(u); d=P-c; ax_=d@u
        return (d*d).sum(1)-ax_**2-p[3]**2
    if typ in('CONEX','CONEY','CONEZ','CONE'):
        c=np.array(p[:3]); t=math.tan(math.radians(p[3]))
        u=np.array(p[4:7]) if typ=='CONE' else np.eye(3)[ax[typ[-1]]]; u=u/np.linalg.norm(u)
        d=P-c; a_=d@u
        return (d*d).sum(1)-a_**2-(t*a_)**2
    if typ=='QUAD':
        return p[0]*x*x+p[1]*y*y+p[2]*z*z+p[3]*x*y+p[4]*y*z+p[5]*z*x+p[6]*x+p[7]*y+p[8]*z+p[9]
    if typ in('TORUSX','TORUSY','TORUSZ'):
        a=ax[typ[-1]]; o=[i for i in range(3) if i!=a]
        rho=np.sqrt((P[:,o[0]]-p[o[0]])**2+(P[:,o[1]]-p[o[1]])**2)
        return (P[:,a]-p[a])**2/p[4]**2+(rho-p[3])**2/p[5]**2-1
    raise ValueError(typ)
def invol(v,P,surfs,trs,vols,cache):
    if v in cache: return cache[v]
    plus,minus,op,f=vols[v]
    r=np.ones(len(P),bool)
    for s in plus: r&=fsurf(surfs[s],P,trs)>0
    for s in minus: r&=fsurf(surfs[s],P,trs)<0
    if op:
        if op[0]=='UNION':
            for a in op[1]: r=r|invol(a,P,surfs,trs,vols,cache)
        else:
            for a in op[1]: r=r&invol(a,P,surfs,trs,vols,cache)
    cache[v]=r; return r

# ---- reference surfaces (MCNP manual)
def ref(mn,p):
    mn=mn.lower()
    def F(P):
        x,y,z=P[:,0],P[:,1],P[:,2]
        if mn=='p': return p[0]*x+p[1]*y+p[2]*z-p[3]
        if mn in('px','py','pz'): return P[:,'xyz'.index(mn[1])]-p[0]
        if mn=='so': return x*x+y*y+z*z-p[0]**2
        if mn=='s': return (x-p[0])**2+(y-p[1])**2+(z-p[2])**2-p[3]**2
        if mn in('sx','sy','sz'):
            c=[0,0,0]; c['xyz'.index(mn[1])]=p[0]; return (x-c[0])**2+(y-c[1])**2+(z-c[2])**2-p[1]**2
        if mn in('cx','cy','cz'):
            a='xyz'.index(mn[1]); o=[i for i in range(3) if i!=a]; return P[:,o[0]]**2+P[:,o[1]]**2-p[0]**2
        if mn in('c/x','c/y','c/z'):
            a='xyz'.index(mn[2]); o=[i for i in range(3) if i!=a]; return (P[:,o[0]]-p[0])**2+(P[:,o[1]]-p[1])**2-p[2]**2
        if mn in('kx','ky','kz','k/x','k/y','k/z'):
            a='xyz'.index(mn[-1]); o=[i for i in range(3) if i!=a]
            if '/' in mn: c=p[:3]; t2=p[3]; sh=p[4] if len(p)>4 else 0
            else: c=[0,0,0]; c[a]=p[0]; t2=p[1]; sh=p[2] if len(p)>2 else 0
            r2=(P[:,o[0]]-c[o[0]])**2+(P[:,o[1]]-c[o[1]])**2; h=P[:,a]-c[a]
            f=r2-t2*h*h
            if sh==0: return f
            return np.where(h*sh>0, f, np.abs(f)+1e-300+r2+h*h)  # other side: positive
        if mn=='sq':
            A,B,C,D,E,Fq,G,x0,y0,z0=p
            return A*(x-x0)**2+B*(y-y0)**2+C*(z-z0)**2+2*D*(x-x0)+2*E*(y-y0)+2*Fq*(z-z0)+G
        if mn=='gq':
            return p[0]*x*x+p[1]*y*y+p[2]*z*z+p[3]*x*y+p[4]*y*z+p[5]*z*x+p[6]*x+p[7]*y+p[8]*z+p[9]
        if mn in('tx','ty','tz'):
            a='xyz'.index(mn[1]); o=[i for i in range(3) if i!=a]
            rho=np.sqrt((P[:,o[0]]-p[o[0]])**2+(P[:,o[1]]-p[o[1]])**2)
            return (P[:,a]-p[a])**2/p[4]**2+(rho-p[3])**2/p[5]**2-1
        raise ValueError(mn)
    return F

rng=random.Random(1)
def r(a,b): return round(rng.uniform(a,b),3)
cases=[]
for _ in range(6):
    cases+= [('p',[r(-1,1),r(-1,1),r(-1,1),r(-3,3)]),('px',[r(-3,3)]),('py',[r(-3,3)]),('pz',[r(-3,3)]),
             ('so',[r(1,4)]),('s',[r(-2,2),r(-2,2),r(-2,2),r(1,3)]),('sx',[r(-2,2),r(1,3)]),('sy',[r(-2,2),r(1,3)]),('sz',[r(-2,2),r(1,3)]),
             ('cx',[r(1,3)]),('cy',[r(1,3)]),('cz',[r(1,3)]),('c/x',[r(-2,2),r(-2,2),r(1,3)]),('c/y',[r(-2,2),r(-2,2),r(1,3)]),('c/z',[r(-2,2),r(-2,2),r(1,3)]),
             ('kx',[r(-2,2),r(0.1,3)]),('ky',[r(-2,2),r(0.1,3),1]),('kz',[r(-2,2),r(0.1,3),-1]),
             ('k/x',[r(-2,2),r(-2,2),r(-2,2),r(0.1,3),-1]),('k/y',[r(-2,2),r(-2,2),r(-2,2),r(0.1,3)]),('k/z',[r(-2,2),r(-2,2),r(-2,2),r(0.1,3),1]),
             ('sq',[r(0.2,2),r(0.2,2),r(-2,2),r(-1,1),r(-1,1),r(-1,1),r(-5,-1),r(-1,1),r(-1,1),r(-1,1)]),
             ('sq',[-r(0.2,2),-r(0.2,2),-r(0.2,2),0,0,0,r(1,5),r(-1,1),r(-1,1),r(-1,1)]),
             ('gq',[r(0.2,2),r(0.2,2),r(-2,2),r(-1,1),r(-1,1),r(-1,1),r(-1,1),r(-1,1),r(-1,1),r(-5,-1)]),
             ('tx',[r(-2,2),r(-2,2),r(-2,2),r(2,3),r(0.3,1),r(0.3,1)]),('ty',[r(-2,2),r(-2,2),r(-2,2),r(2,3),r(0.3,1),r(0.3,1)]),('tz',[r(-2,2),r(-2,2),r(-2,2),r(2,3),r(0.3,1),r(0.3,1)])]
bad={}
N=4000
for mn,p in cases:
    deck=f"t\n1 1 -1.0 -1 -9 imp:n=1\n2 2 -2.0 1 -9 imp:n=1\n99 0 9 imp:n=0\n\n1 {mn} {' '.join(map(str,p))}\n9 so 30\n\nm1 13027 1.\nm2 13027 1.\n"
    try: out=convert(deck)
    except Exception as e:
        bad.setdefault(mn,[]).append(('EXC',repr(e)[:80])); continue
    surfs,trs,vols=parse_t4(out)
    P=np.random.default_rng(5).uniform(-6,6,(N,3))
    f=ref(mn,p)(P)
    ok=np.abs(f)>1e-6
    c={}
    in1=invol(1,P,surfs,trs,vols,c); in2=invol(2,P,surfs,trs,vols,c)
    mism=ok&((in1!=(f<0))|(in2!=(f>0)))
    if mism.any(): bad.setdefault(mn,[]).append((p,int(mism.sum())))
print('cases',len(cases),'bad',bad)
