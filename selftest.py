#!/usr/bin/env python3
'''Self-validation of the monitors (DESIGN section 6): apply one mutant at a
time to a scratch copy of /repo, run the matching quick checks with
VERIF_REPO pointing at the copy and require a VIOLATION; the unpatched copy
must stay silent.  Usage: selftest.py [--only name-substring] [--props C01,C02]

With --benign the behaviour-preserving changes of mutants.json (entries with
"benign": true: reordered output, other surviving duplicate, multi-line VOLU,
...) are applied instead and every check must stay silent (exit 0): this is
the false-alarm side of the self-validation.
'''
import argparse
import json
import os
import shutil
import subprocess
import sys
import tempfile

VERIF = os.path.dirname(os.path.abspath(__file__))
ALL = [f'C{i:02d}' for i in range(1, 19)]


def run_checks(mut, todo, copy, args, missed):
    for pid in todo:
        env = dict(os.environ, VERIF_REPO=copy, VERIF_SEED=args.seed)
        res = subprocess.run([os.path.join(VERIF, 'check'), pid,
                              '--tier', args.tier, '--no-evidence'],
                             env=env, capture_output=True, text=True)
        if args.benign:
            quiet = res.returncode == 0 and 'VIOLATION' not in res.stdout
            print(f"{mut['name']:45s} {pid}: "
                  f"{'quiet' if quiet else 'ALARM (exit %d)' % res.returncode}")
            sys.stdout.flush()
            if not quiet:
                missed.append((mut['name'], pid))
                print(res.stdout[-1500:])
            continue
        caught = res.returncode == 1 and 'VIOLATION' in res.stdout
        print(f"{mut['name']:45s} {pid}: "
              f"{'caught' if caught else 'MISSED (exit %d)' % res.returncode}")
        sys.stdout.flush()
        if not caught:
            missed.append((mut['name'], pid))


def main():
    parser = argparse.ArgumentParser()
    parser.add_argument('--only')
    parser.add_argument('--props')
    parser.add_argument('--tier', default='quick')
    parser.add_argument('--seed', default='1')
    parser.add_argument('--benign', action='store_true')
    args = parser.parse_args()
    with open(os.path.join(VERIF, 'mutants', 'mutants.json')) as fil:
        mutants = json.load(fil)
    props = set(args.props.split(',')) if args.props else None
    scratch = tempfile.mkdtemp(prefix='vt-mut-', dir='/dev/shm')
    missed = []
    try:
        for mut in mutants:
            if args.only and args.only not in mut['name']:
                continue
            if bool(mut.get('benign')) != args.benign:
                continue
            pool = ALL if args.benign else mut['props']
            todo = [p for p in pool if props is None or p in props]
            if not todo:
                continue
            copy = os.path.join(scratch, 'repo')
            if os.path.exists(copy):
                shutil.rmtree(copy)
            shutil.copytree('/repo', copy, ignore=shutil.ignore_patterns(
                '.git', '__pycache__', 'docs', 'pics', 'Oracle'))
            if 'edits' in mut:
                # refactoring spread over several files: every occurrence of
                # each pattern is replaced
                stale = False
                for edit in mut['edits']:
                    path = os.path.join(copy, edit['file'])
                    with open(path) as fil:
                        text = fil.read()
                    if edit['old'] not in text:
                        stale = True
                    with open(path, 'w') as fil:
                        fil.write(text.replace(edit['old'], edit['new']))
                if stale:
                    print(f"{mut['name']}: a pattern was not found - stale")
                    missed.append((mut['name'], 'stale'))
                    continue
                run_checks(mut, todo, copy, args, missed)
                continue
            path = os.path.join(copy, mut['file'])
            with open(path) as fil:
                text = fil.read()
            if text.count(mut['old']) != 1:
                print(f"{mut['name']}: pattern found {text.count(mut['old'])} "
                      'times - mutant is stale')
                missed.append((mut['name'], 'stale'))
                continue
            text = text.replace(mut['old'], mut['new'])
            if 'extra' in mut and 'file' not in mut['extra']:
                assert text.count(mut['extra']['old']) == 1
                text = text.replace(mut['extra']['old'], mut['extra']['new'])
            with open(path, 'w') as fil:
                fil.write(text)
            if 'extra' in mut and 'file' in mut['extra']:
                path2 = os.path.join(copy, mut['extra']['file'])
                with open(path2) as fil:
                    text2 = fil.read()
                assert text2.count(mut['extra']['old']) == 1
                with open(path2, 'w') as fil:
                    fil.write(text2.replace(mut['extra']['old'],
                                            mut['extra']['new']))
            run_checks(mut, todo, copy, args, missed)
    finally:
        shutil.rmtree(scratch, ignore_errors=True)
        shutil.rmtree(os.path.join(VERIF, 'replay'), ignore_errors=True)
    if missed:
        print('FALSE ALARMS:' if args.benign else 'MISSED:', missed)
        return 1
    print('all benign changes left every check quiet' if args.benign
          else 'all mutants caught')
    return 0


if __name__ == '__main__':
    sys.exit(main())
