'''The repository's own example decks (IntegrationTests/data/*.imcnp) under
the reference semantics: each deck is read by the independent reader
(`vt/mcnp_read.py`), converted by the real converter with the options the
deck asks for, and the region-agreement oracle R is applied.  The decks are
shared out to the properties by the feature they exercise (classify()).'''
import glob
import os
import shlex

import numpy as np

from . import model as M
from . import mcnp_read, probes, shim

NCHUNKS = 4


def decks():
    out = []
    pattern = os.path.join(shim.REPO, 't4_geom_convert', 'IntegrationTests',
                           'data', '*.imcnp')
    for path in sorted(glob.glob(pattern)):
        enc = 'latin1' if 'latin1' in path else 'utf-8'
        with open(path, encoding=enc) as fil:
            text = fil.read()
        opts = []
        for line in text.split('\n')[:50]:
            pos = line.find('converter-flags:')
            if pos != -1:
                opts = shlex.split(line[pos + len('converter-flags:'):])
        if '-e' in opts:
            k = opts.index('-e')
            del opts[k:k + 2]
        out.append((os.path.basename(path), text, opts, enc))
    return out


def classify(deck):
    '''The property whose statement covers the most specific feature of the
    deck.'''
    if any(c.like is not None for c in deck.cells):
        return 'C15'
    if any(c.lat == 2 for c in deck.cells):
        return 'C07'
    if any(c.lat == 1 for c in deck.cells):
        return 'C06'
    if any(c.fill is not None for c in deck.cells):
        return 'C05'
    if any(s.is_macro for s in deck.surfs):
        return 'C03'
    if any(s.tr for s in deck.surfs) or any(c.trcl for c in deck.cells):
        return 'C04'
    if any(M.expr_size(c.geom) > 2 or list(M.expr_cellrefs(c.geom))
           for c in deck.cells):
        return 'C01'
    return 'C02'


def world_of(deck):
    '''Half-width of the probing box: large enough for the numbers that
    appear on the surface cards and in the transformations.'''
    big = 1.0
    for sur in deck.surfs:
        for val in sur.params:
            if abs(val) < 1e4:
                big = max(big, abs(val))
    for trc in deck.trs:
        big += float(np.abs(trc.motion.o).max())
    return min(2.5 * big, 500.0)


def hints_of(deck, rng, count=600):
    '''Points near the numbers written on the surface cards.'''
    vals = sorted({round(v, 6) for s in deck.surfs for v in s.params
                   if abs(v) < 1e4} | {0.0})
    pts = []
    for _ in range(count):
        pts.append([rng.choice(vals) + rng.gauss(0, 0.3) for _ in range(3)])
    return np.array(pts)


def run_chunk(case, ctx, out, prop, all_decks=False, extra=None,
              with_points=True):
    '''Judge the example decks classified to `prop` whose rank falls in this
    case's chunk.'''
    rank = 0
    for name, text, opts, enc in decks():
        try:
            deck = mcnp_read.read_deck(text, opts)
        except mcnp_read.Unsupported as err:
            out.counters['upstream_not_read'] += 1
            out.counters[f'upstream_not_read:{str(err)[:40]}'] += 1
            continue
        if not all_decks and classify(deck) != prop:
            continue
        rank += 1
        if rank % NCHUNKS != case.index % NCHUNKS:
            continue
        out.counters['upstream_decks'] += 1
        out.tags.add(f'upstream.{name}')
        run = ctx.convert(text, opts)
        if not run.ok:
            out.violation('crash', f'{name}: {run.brief()}',
                          exc_type=run.exc_type, exc_where=run.exc_where)
            out.decks.append((name, text, list(opts)))
            continue
        t4, probs = ctx.parse(run)
        fatal = [p for p in probs if p[0] in (
            'layout', 'surf-syntax', 'surf-type', 'surf-arity', 'volu-syntax',
            'numeric-field', 'defined-surf', 'defined-volu',
            'integer-reference', 'transform-syntax')]
        if fatal:
            out.violation('unreadable-file', f'{name}: {fatal[:3]}',
                          mech='c08:' + fatal[0][0])
            continue
        if not with_points:
            # this property judges the file and the run's messages only
            extra(out, deck, None, t4, name, run)
            continue
        reference = M.Reference(deck)
        sides = probes.Sides(reference, t4)
        loose = getattr(deck, 'rounded_matrices', False)
        world = world_of(deck)
        pts = probes.make_probes(case.rng, sides, world, n_uniform=2500,
                                 hints=hints_of(deck, case.rng),
                                 delta=2e-2 if loose else 1e-3)
        judged, discarded, mism = probes.agree(
            sides, pts, eps=1e-2 if loose else 5e-5)
        if not all_decks:
            # (with all_decks the geometry is judged under another property;
            # only what `extra` judges counts here)
            out.judged += judged
            out.discarded += discarded
        out.counters['upstream_probes'] += len(pts)
        labels = set(sides.expected(pts[:2500]))
        out.counters['upstream_regions_seen'] += len(labels)
        if extra is not None:
            extra(out, deck, sides, t4, name, run)
        if mism and all_decks:
            # the geometry of this deck is judged under another property
            out.counters['upstream_region_mismatch_elsewhere'] += 1
        elif mism:
            out.violation('upstream-region', {
                'deck': name, 'n_points': len(mism), 'first': mism[:3]},
                deck_name=name)
            out.decks.append((name, text, list(opts)))
    return out
