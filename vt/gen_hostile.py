'''Hostile deck families aimed at the writers (C08) and boundary conditions
(C16).'''
import numpy as np

from . import model as M
from .gen_surf import rnd
from .gen_univ import Builder, SLOTS
from .decks import WORLD_SURF

FAMILIES = ['empty-filler-shared', 'empty-filler-once', 'lattice-complement',
            'dedup-opposite', 'dedup-many', 'unused-surfaces',
            'all-cells-empty-but-one', 'union-of-empties-filler',
            'helper-plane-collision']


def build(rng, family):
    bld = Builder(rng, f'C08 {family}')
    deck = bld.deck
    slots = SLOTS[:]
    rng.shuffle(slots)
    containers = []
    if family in ('empty-filler-shared', 'empty-filler-once',
                  'union-of-empties-filler'):
        uni = bld.universe(0, style='sphere')
        base = 100 * uni
        # a third cell of the universe that is patently empty
        mat, rho = bld.material()
        if family == 'union-of-empties-filler':
            geom = M.OR(M.AND(M.S(base + 1), M.S(-(base + 1))),
                        M.AND(M.S(-(base + 1)), M.S(base + 1)))
        else:
            geom = M.AND(M.S(base + 1), M.S(-(base + 1)))
        deck.cells.append(M.Cell(base + 9, mat=mat, rho=rho, geom=geom,
                                 imp={'n': '1'}, u=uni))
        ncont = 1 if family == 'empty-filler-once' else rng.randint(2, 3)
        for k in range(ncont):
            cid = k + 1
            form = rng.choice(['none', 'inline3', 'inline12'])
            fill = bld.fill_of(uni, form, around=slots[k])
            if form == 'none':
                # universe content at the origin: put the container there too
                bld.container(cid, (0.0, 0.0, 0.0) if k == 0 else slots[k],
                              fill)
            else:
                bld.container(cid, slots[k], fill)
            containers.append(cid)
    elif family == 'lattice-complement':
        # a universe holding a lattice cell and a cell that is the complement
        # of the lattice cell (the converter replaces it by a patently empty
        # cell)
        from . import gen_lat
        deck = gen_lat.build_rect(rng, rng.choice(['ortho-2d', 'ortho-1d']))
        lat = deck.cell(gen_lat.LAT_CELL)
        deck.cells.append(M.Cell(gen_lat.LAT_CELL + 1, mat=1, rho='-1.5',
                                 geom=M.CELLC(gen_lat.LAT_CELL),
                                 imp={'n': '1'}, u=lat.u))
        deck.cells.sort(key=lambda c: (c.u is not None, c.id))
        deck.tags.add('hostile.lattice-complement')
        deck.title = 'C08 lattice-complement'
        deck.unjudged_geometry = True
        return deck
    elif family in ('dedup-opposite', 'dedup-many'):
        # identical surface cards under different numbers, used with
        # opposite signs in one cell and across cells
        cen = [rnd(rng, -2, 2) for _ in range(3)]
        rad = rnd(rng, 2, 4)
        pos = rnd(rng, -1, 1)
        deck.surfs += [M.Surf(1, 's', cen + [rad]), M.Surf(2, 's', cen + [rad]),
                       M.Surf(3, 'px', [pos]), M.Surf(4, 'px', [pos]),
                       M.Surf(5, 'p', [1, 0, 0, pos])]
        geoms = [M.AND(M.S(-1), M.S(2)),             # empty after dedup
                 M.AND(M.S(-1), M.S(-3)),
                 M.AND(M.S(-2), M.S(4)),
                 M.OR(M.AND(M.S(1), M.S(-2)), M.AND(M.S(3), M.S(-4))),
                 M.AND(M.S(1), M.OR(M.AND(M.S(3), M.S(-5)), M.S(-4)))]
        # a union whose main branch is a sound pure intersection and whose
        # other branches vanish through de-duplication
        geoms += [M.OR(M.AND(M.S(-1), M.S(-3)), M.AND(M.S(3), M.S(-4))),
                  M.OR(M.AND(M.S(1), M.S(3), M.S(-9 if False else 5)),
                       M.AND(M.S(-1), M.S(2)), M.AND(M.S(4), M.S(-5)))]
        if family == 'dedup-many':
            geoms += [M.AND(M.S(2), M.S(5)), M.AND(M.S(-1), M.S(-5), M.S(3))]
        for num, geom in enumerate(geoms, start=1):
            mat, rho = bld.material()
            deck.cells.append(M.Cell(num, mat=mat, rho=rho,
                                     geom=M.AND(geom, M.S(-WORLD_SURF)),
                                     imp={'n': '1'}))
        deck.surfs.append(M.Surf(WORLD_SURF, 'so', [deck.world]))
        deck.cells.append(M.Cell(900, mat=0, geom=M.S(WORLD_SURF),
                                 imp={'n': '0'}))
        deck.tags.add(f'hostile.{family}')
        return deck
    elif family == 'helper-plane-collision':
        # user surfaces that coincide with the converter's auxiliary planes
        # for unions (x = 1 and x = -1), together with duplicate cards used
        # with opposite signs in the main branch of a union
        pos = rnd(rng, 2, 4)
        # the numbers are dealt at random: which of the two colliding user
        # planes has the lower number decides which auxiliary plane is
        # merged into which
        ids = [1, 2, 3, 4, 5, 6]
        rng.shuffle(ids)
        s_a, s_b, s_c, s_d, s_e, s_f = ids
        xa, xf = rng.choice([(1, -1), (1, -1), (1.5, -1), (1, -1.5)])
        deck.surfs += [M.Surf(s_a, 'px', [xa]), M.Surf(s_b, 'py', [pos]),
                       M.Surf(s_c, 'py', [pos]), M.Surf(s_d, 'pz', [0.5]),
                       M.Surf(s_e, 'so', [5.0]), M.Surf(s_f, 'px', [xf])]
        deck.surfs.sort(key=lambda sur: sur.id)
        geoms = [M.OR(M.AND(M.S(s_b), M.S(-s_c), M.S(s_d)), M.S(-s_e)),
                 M.AND(M.S(s_e), M.S(s_a), M.OR(M.S(-s_b), M.S(s_d))),
                 M.AND(M.S(s_e), M.S(-s_a), M.S(s_f)),
                 M.AND(M.S(s_e), M.S(-s_f),
                       M.OR(M.AND(M.S(s_c), M.S(-s_b)),
                            M.AND(M.S(-s_d), M.S(s_b))))]
        if rng.random() < 0.5:
            geoms = geoms[::-1]
        for num, geom in enumerate(geoms, start=1):
            mat, rho = bld.material()
            deck.cells.append(M.Cell(num, mat=mat, rho=rho,
                                     geom=M.AND(geom, M.S(-WORLD_SURF)),
                                     imp={'n': '1'}))
        deck.surfs.append(M.Surf(WORLD_SURF, 'so', [deck.world]))
        deck.cells.append(M.Cell(900, mat=0, geom=M.S(WORLD_SURF),
                                 imp={'n': '0'}))
        deck.tags.add(f'hostile.{family}')
        return deck
    elif family == 'unused-surfaces':
        uni = bld.universe(0)
        fill = bld.fill_of(uni, 'inline12', around=slots[0])
        bld.container(1, slots[0], fill)
        containers.append(1)
        for k in range(3):
            deck.surfs.append(M.Surf(70 + k, rng.choice(['px', 'so', 'cz']),
                                     [rnd(rng, 1, 5)],
                                     flag=rng.choice(['', '', '*'])))
    elif family == 'all-cells-empty-but-one':
        deck.surfs += [M.Surf(1, 'so', [3.0]), M.Surf(2, 'px', [0.5])]
        geoms = [M.AND(M.S(1), M.S(-1)), M.AND(M.S(2), M.S(-1), M.S(-2)),
                 M.S(-1)]
        for num, geom in enumerate(geoms, start=1):
            mat, rho = bld.material()
            deck.cells.append(M.Cell(num, mat=mat, rho=rho,
                                     geom=M.AND(geom, M.S(-WORLD_SURF)),
                                     imp={'n': '1'}))
        deck.surfs.append(M.Surf(WORLD_SURF, 'so', [deck.world]))
        deck.cells.append(M.Cell(900, mat=0, geom=M.S(WORLD_SURF),
                                 imp={'n': '0'}))
        deck.tags.add(f'hostile.{family}')
        return deck
    deck = bld.finish(containers)
    deck.tags.add(f'hostile.{family}')
    return deck
