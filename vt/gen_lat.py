'''Generators of lattice decks (C06 rectangular, C07 hexagonal).'''
import math
import os
import numpy as np

from . import model as M
from .mcnp_ref import Motion
from .gen_surf import rnd, nz, random_rotation, motion_of_class, tr_card, tr_spec
from .decks import WORLD_SURF

RECT_FAMILIES = ['ortho-1d', 'ortho-2d', 'ortho-3d', 'skew-2d', 'skew-3d',
                 'flip-order', 'array-own', 'array-zero', 'shorthand',
                 'cli-single', 'cli-degenerate', 'fill-translation',
                 'fill-rotation', 'lat-trcl', 'container-rot',
                 'container-small', 'container-trcl', 'rotated-cell',
                 'nested', 'rpp-cell', 'box-cell', 'paren-pairs',
                 'planes-with-tr', 'planes-implicit', 'shorthand-long']
HEX_FAMILIES = ['regular-6', 'regular-8', 'irregular-6', 'irregular-8',
                'rotated-6', 'rotated-8', 'handed-minus', 'handed-plus',
                'swap-last', 'cli-single', 'array-own-zero', 'fill-rotation',
                'container-rot', 'flip-axial', 'nonadjacent-6',
                'nonadjacent-8', 'nested', 'side-planes-with-tr', 'paren-pairs',
                'two-lattices', 'two-pitches', 'oblique-8', 'planes-implicit']

LAT_U = 50          # universe of the lattice cell
LAT_CELL = 500


class LatBuilder:
    def __init__(self, rng, title):
        self.rng = rng
        self.deck = M.Deck(title)
        self.deck.world = 12.0
        self.nmat = 0
        self.next_tr = 1
        self.next_surf = 10

    def material(self):
        self.nmat += 1
        rho = f'-{self.nmat}.{self.rng.randint(1, 9)}'
        self.deck.mats.append(M.Material(self.nmat, [('13027', '1')]))
        return self.nmat, rho

    def plane(self, normal, point):
        '''Add a plane card through `point` with the given normal (random
        spelling: px/py/pz when axis-aligned, else p; random orientation).
        Returns (surface id, sign of the normal as written).'''
        rng = self.rng
        nrm = np.asarray(normal, dtype=float)
        sid = self.next_surf
        self.next_surf += 1
        flip = rng.random() < 0.5
        axis = [i for i in range(3) if abs(nrm[i]) > 1e-12]
        if len(axis) == 1 and rng.random() < 0.8:
            ax = axis[0]
            kind = 'p' + 'xyz'[ax]
            # px cards always have normal +x
            written = 1.0 if nrm[ax] > 0 else -1.0
            self.deck.surfs.append(M.Surf(sid, kind, [float(point[ax])]))
            return sid, written
        scale = rng.choice([1.0, 2.0, 0.5])
        wnrm = nrm * scale * (-1 if flip else 1)
        dval = float(wnrm @ np.asarray(point, dtype=float))
        self.deck.surfs.append(M.Surf(sid, 'p', [float(v) for v in wnrm]
                                      + [dval]))
        return sid, (-1.0 if flip else 1.0)

    def plane_like(self, sid_like, point):
        '''Add a plane with exactly the normal of card `sid_like` as it is
        written there, through `point`.'''
        like = next(s for s in self.deck.surfs if s.id == sid_like)
        sid = self.next_surf
        self.next_surf += 1
        pnt = np.asarray(point, dtype=float)
        if like.kind in ('px', 'py', 'pz'):
            params = [float(pnt['xyz'.index(like.kind[1])])]
        else:
            abc = [float(v) for v in like.params[:3]]
            params = abc + [float(np.asarray(abc) @ pnt)]
        self.deck.surfs.append(M.Surf(sid, like.kind, params))
        return sid

    def element_universe(self, unum, size):
        '''Two cells: inside / outside an off-centre sphere.'''
        rng = self.rng
        base = 100 * unum
        cen = [rnd(rng, -0.25, 0.25) * size for _ in range(3)]
        sid = base + 1
        self.deck.surfs.append(M.Surf(sid, 's', cen + [rnd(rng, 0.25, 0.4) * size]))
        for j, geom in enumerate((M.S(-sid), M.S(sid)), start=1):
            mat, rho = self.material()
            self.deck.cells.append(M.Cell(base + j, mat=mat, rho=rho, geom=geom,
                                          imp={'n': '1'}, u=unum))


def _ranges(rng, ndim, total_cap=60):
    big = os.environ.get('VERIF_TIER') == 'thorough' and rng.random() < 0.08
    if big:
        # the thorough tier also develops lattices of a few hundred elements
        # with ranges far from zero
        total_cap = 320
    while True:
        rngs = []
        for _ in range(ndim):
            lo = rng.randint(-2, 1)
            # a single element in a direction of the lattice is legal (the
            # FILL card still carries the range, e.g. 0:0)
            hi = lo + rng.choice([0, 1, 1, 2, 2, 3])
            if big:
                lo = rng.randint(-9, 6)
                hi = lo + rng.randint(2, 9)
            rngs.append((lo, hi))
        size = 1
        for lo, hi in rngs:
            size *= hi - lo + 1
        if size <= total_cap:
            return rngs


def _array(rng, ranges, universes, own=None, zero=False):
    size = 1
    for lo, hi in ranges:
        size *= hi - lo + 1
    pool = list(universes)
    arr = [pool[(3 * k + (k // 2)) % len(pool)] for k in range(size)]
    rng.shuffle(arr)
    # make sure every universe appears and the array is not a palindrome
    for k, uni in enumerate(pool):
        if k < size:
            arr[k] = uni
    if own is not None and size > 2:
        arr[rng.randrange(size)] = own
        arr[-1] = own
    if zero and size > 2:
        arr[rng.randrange(size - 1)] = 0
    return arr


def _with_shorthand(arr):
    '''Collapse runs into nR shorthand.'''
    out = []
    k = 0
    while k < len(arr):
        run = 1
        while k + run < len(arr) and arr[k + run] == arr[k]:
            run += 1
        out.append(str(arr[k]))
        if run == 2:
            out.append('r')
        elif run > 2:
            out.append(f'{run - 1}r')
        k += run
    return out


def _planes_implicit(bld, lat):
    '''Write the planes of the lattice cell as surfaces moved by the TRCL of
    another cell: the cards describe the planes somewhere else, a cell `c`
    (of a universe nobody fills) carries the TRCL that brings them to their
    place, and the lattice cell refers to them as 1000*c + s.'''
    rng = bld.rng
    deck = bld.deck
    mot = motion_of_class(rng, rng.choice(['translation', 'generic',
                                           'quarter', 'flip-z']))
    ids = sorted({leaf[1] for leaf in M.expr_leaves(lat.geom)})
    for sur in deck.surfs:
        if sur.id not in ids:
            continue
        if sur.kind in ('px', 'py', 'pz'):
            nrm = np.eye(3)['xyz'.index(sur.kind[1])]
            dval = float(sur.params[0])
        else:
            nrm = np.array(sur.params[:3], dtype=float)
            dval = float(sur.params[3])
        # x = O + B^T x'  =>  (B n).x' = d - n.O
        new_n = mot.b @ nrm
        new_d = dval - float(nrm @ mot.o)
        if np.array_equal(mot.b, np.eye(3)) and sur.kind != 'p':
            sur.params = [new_d]
        else:
            sur.kind = 'p'
            sur.params = [float(v) for v in new_n] + [new_d]
    # (cell 1 half of the time: the implicit numbers 1001... are then the
    # first numbers above the largest surface number a deck may use, and the
    # container takes another number, see finish())
    owner = rng.choice([1, 1, 1, 2, 3, 5, 7])
    deck.implicit_owner = owner
    inline = rng.random() < 0.5
    if inline:
        spec = tr_spec(rng, mot, 'inline12')
    else:
        tid = bld.next_tr
        bld.next_tr += 1
        deck.trs.append(tr_card(rng, tid, mot, rng.choice(['12', 'star'])))
        spec = M.TrSpec(number=tid)
    mat, rho = bld.material()
    deck.cells.append(M.Cell(owner, mat=mat, rho=rho,
                             geom=M.AND(*[M.S(-sid) for sid in ids]),
                             imp={'n': '1'}, u=99, trcl=spec))

    def swap(expr):
        if expr[0] == 's':
            return ('s', 1000 * owner + expr[1], expr[2], expr[3])
        if expr[0] == '^':
            return expr
        if expr[0] in ('#', 'g'):
            return (expr[0], swap(expr[1]))
        return (expr[0],) + tuple(swap(sub) for sub in expr[1:])
    lat.geom = swap(lat.geom)
    deck.tags.add('lattice.planes-implicit')


def finish(bld, container_geom, lat_cell, fill_of_container, trcl=None,
           extra_level0=()):
    deck = bld.deck
    if deck.title.endswith('planes-implicit'):
        _planes_implicit(bld, lat_cell)
    mat, rho = bld.material()
    cid = 6 if getattr(deck, 'implicit_owner', None) == 1 else 1
    deck.container_id = cid
    cont = M.Cell(cid, mat=mat, rho=rho, geom=container_geom, imp={'n': '1'},
                  fill=fill_of_container, trcl=trcl)
    deck.cells.insert(0, cont)
    deck.surfs.append(M.Surf(WORLD_SURF, 'so', [deck.world]))
    mat, rho = bld.material()
    rest = [M.CELLC(cid)] + [M.CELLC(c.id) for c in extra_level0]
    for cel in extra_level0:
        deck.cells.insert(1, cel)
    deck.cells.insert(1, M.Cell(90, mat=mat, rho=rho,
                                geom=M.AND(*rest, M.S(-WORLD_SURF)),
                                imp={'n': '1'}))
    deck.cells.append(M.Cell(900, mat=0, geom=M.S(WORLD_SURF), imp={'n': '0'}))
    deck.cells.sort(key=lambda c: (c.u is not None, c.id))
    deck.surfs.sort(key=lambda s: s.id)
    if bld.rng.random() < 0.25:
        # the order of the cards inside a block is free in MCNP
        bld.rng.shuffle(deck.surfs)
        deck.tags.add('cards.unordered')
    if bld.rng.random() < 0.25:
        bld.rng.shuffle(deck.cells)
        deck.tags.add('cells.unordered')
    if bld.rng.random() < 0.3:
        M.shuffle_options(deck, bld.rng)
    if bld.rng.random() < 0.3:
        M.vary_largest_surface(deck, bld.rng)
    if bld.rng.random() < 0.15:
        M.add_unrelated_cards(deck, bld.rng)
    return deck


def _container(bld, family, span):
    '''Container surface + geometry around the origin of the main frame.'''
    rng = bld.rng
    if family == 'container-small':
        rad = max(1.5, 0.6 * span)
    else:
        rad = min(10.5, span + rnd(rng, 0.5, 1.5))
    if rng.random() < 0.5:
        bld.deck.surfs.append(M.Surf(1, 'so', [round(rad, 3)]))
    else:
        bld.deck.surfs.append(M.Surf(1, 'rpp', [round(-rad, 3), round(rad * 0.9, 3),
                                                round(-rad * 0.95, 3), round(rad, 3),
                                                round(-rad, 3), round(rad * 0.85, 3)]))
    return M.S(-1)


def _place(bld, family, trcl_family='container-trcl'):
    '''Fill transformation of the container (lattice universe frame) and the
    container TRCL.'''
    rng = bld.rng
    fill_tr = None
    trcl = None
    if family == 'container-rot':
        mot = motion_of_class(rng, rng.choice(['generic', 'quarter', 'flip-z',
                                               'permutation']))
        mot = Motion([rnd(rng, -1, 1), rnd(rng, -1, 1), rnd(rng, -1, 1)], mot.b)
        if rng.random() < 0.5:
            tid = bld.next_tr
            bld.next_tr += 1
            bld.deck.trs.append(tr_card(rng, tid, mot, rng.choice(['12', 'star'])))
            fill_tr = M.TrSpec(number=tid)
        else:
            fill_tr = tr_spec(rng, mot, rng.choice(['inline12', 'star']))
    elif family == trcl_family:
        mot = motion_of_class(rng, rng.choice(['generic', 'translation']))
        mot = Motion([rnd(rng, -1, 1), rnd(rng, -1, 1), rnd(rng, -1, 1)], mot.b)
        trcl = tr_spec(rng, mot, 'inline12')
    return fill_tr, trcl


def _maybe_nested(bld, family, lattice_fill, span):
    '''For the nested family the container is filled by an intermediate
    universe one of whose cells is filled by the lattice universe (through a
    rotated fill transformation): chains of depth 3.'''
    if family != 'nested':
        return lattice_fill
    rng = bld.rng
    mid = 60
    rad = round(min(9.0, 0.8 * span + 1.0), 3)
    bld.deck.surfs.append(M.Surf(601, 's', [rnd(rng, -0.3, 0.3),
                                            rnd(rng, -0.3, 0.3),
                                            rnd(rng, -0.3, 0.3), rad]))
    mot = motion_of_class(rng, rng.choice(['generic', 'quarter', 'translation']))
    mot = Motion([rnd(rng, -0.5, 0.5) for _ in range(3)], mot.b)
    inner = M.Fill(universe=LAT_U, tr=tr_spec(rng, mot, 'inline12'))
    mat, rho = bld.material()
    bld.deck.cells.append(M.Cell(601, mat=mat, rho=rho, geom=M.S(-601),
                                 imp={'n': '1'}, u=mid, fill=inner))
    mat, rho = bld.material()
    bld.deck.cells.append(M.Cell(602, mat=mat, rho=rho, geom=M.S(601),
                                 imp={'n': '1'}, u=mid))
    outer_mot = Motion([rnd(rng, -0.5, 0.5) for _ in range(3)])
    return M.Fill(universe=mid, tr=tr_spec(rng, outer_mot, 'inline3'))


def _lattice_geom(family, leaves, rng):
    '''Intersection of the listed planes; for the paren-pairs family the
    planes are grouped in redundant parentheses, the listing order being
    the same.'''
    if family != 'paren-pairs' or len(leaves) < 4:
        return M.AND(*leaves)
    groups = []
    k = 0
    while k < len(leaves):
        size = 2 if k + 2 <= len(leaves) else 1
        if rng.random() < 0.2 and k + 3 <= len(leaves):
            size = 3
        chunk = leaves[k:k + size]
        groups.append(M.GROUP(M.AND(*chunk)) if len(chunk) > 1 else chunk[0])
        k += size
    if rng.random() < 0.3:
        # leave the first pair unparenthesised
        first = groups[0]
        if first[0] == 'g':
            groups[0:1] = list(first[1][1:])
    return M.AND(*groups)


def _fill_for_lattice(bld, family, ranges3, ndim, universes, cell_id):
    '''The FILL of the lattice cell and the CLI option if needed.'''
    rng = bld.rng
    deck = bld.deck
    if family in ('cli-single', 'cli-degenerate', 'fill-translation',
                  'fill-rotation'):
        rngs = ranges3[:ndim]
        if family == 'cli-degenerate':
            k = rng.randrange(ndim)
            val = rng.randint(-1, 2)
            rngs = list(rngs)
            rngs[k] = (val, val)
        tr = None
        if family in ('fill-translation', 'fill-rotation'):
            cls = 'translation' if family == 'fill-translation' else \
                rng.choice(['generic', 'quarter', 'flip-x', 'permutation'])
            mot = motion_of_class(rng, cls)
            mot = Motion([rnd(rng, -0.3, 0.3) for _ in range(3)], mot.b)
            if rng.random() < 0.5:
                tid = bld.next_tr
                bld.next_tr += 1
                deck.trs.append(tr_card(rng, tid, mot, '12'))
                tr = M.TrSpec(number=tid)
            else:
                tr = tr_spec(rng, mot, 'inline12' if cls != 'translation'
                             else 'inline3')
        fil = M.Fill(universe=universes[0], tr=tr)
        fil.ranges = list(rngs)
        deck.cli += ['--lattice', f'{cell_id},'
                     + ','.join(f'{lo}:{hi}' for lo, hi in rngs)]
        return fil
    own = LAT_U if family in ('array-own', 'array-own-zero') else None
    zero = family in ('array-zero', 'array-own-zero')
    arr = _array(rng, ranges3, universes, own=own, zero=zero)
    fil = M.Fill(ranges=list(ranges3), array=arr)
    if family in ('shorthand', 'shorthand-long'):
        # long runs, rendered with nR
        arr2 = []
        for k, val in enumerate(arr):
            arr2.append(arr[(k // 3) * 3])
        if rng.random() < 0.6:
            # a run of "no element here" or of the lattice's own universe:
            # what is repeated is the value, whatever it is
            val = rng.choice([0, 0, LAT_U])
            start = 3 * rng.randrange(max(1, len(arr2) // 3))
            for k in range(start, min(start + 3, len(arr2))):
                arr2[k] = val
        fil.array = arr2
        fil.render_array = _with_shorthand(arr2)
    elif rng.random() < 0.3:
        # any array may be written with the repeat shorthand where two
        # neighbours are equal (zeros included)
        fil.render_array = _with_shorthand(arr)
    return fil


# --------------------------------------------------------------------------
# rectangular lattices
# --------------------------------------------------------------------------
def build_rect(rng, family):
    bld = LatBuilder(rng, f'C06 {family}')
    deck = bld.deck
    if family in ('rpp-cell', 'box-cell'):
        return _build_macro_cell(bld, family)
    if family in ('ortho-1d',):
        ndim = 1
    elif family in ('ortho-3d', 'skew-3d'):
        ndim = 3
    elif family in ('ortho-2d', 'skew-2d', 'shorthand-long'):
        ndim = 2
    else:
        ndim = rng.choice([1, 2, 2, 3])
    skew = family.startswith('skew') or (family == 'rotated-cell') or \
        (not family.startswith('ortho') and rng.random() < 0.3)
    lens = [rnd(rng, 1.3, 2.4) for _ in range(3)]
    if family == 'rotated-cell':
        frame = random_rotation(rng)
        vecs = [frame[k] * lens[k] for k in range(ndim)]
    else:
        perm = [0, 1, 2]
        rng.shuffle(perm)
        vecs = [np.eye(3)[perm[k]] * lens[k] for k in range(ndim)]
        if skew and ndim >= 2:
            vecs[1] = vecs[1] + 0.35 * vecs[0]
            if ndim == 3:
                vecs[2] = vecs[2] + 0.25 * vecs[1] - 0.2 * vecs[0]
    origin = np.array([rnd(rng, -0.4, 0.4) for _ in range(3)])
    # reciprocal vectors
    mat = np.array(vecs)
    rec = np.linalg.solve(mat @ mat.T, mat)
    if ndim == 3:
        rec = np.linalg.inv(mat).T
    flip = [family == 'flip-order' or rng.random() < 0.35 for _ in range(ndim)]
    if family == 'flip-order':
        flip[rng.randrange(ndim)] = True
    leaves = []
    truth = []
    for k in range(ndim):
        plus_pt = origin + 0.5 * vecs[k]
        minus_pt = origin - 0.5 * vecs[k]
        sid_p, wr_p = bld.plane(rec[k], plus_pt)
        sid_m, wr_m = bld.plane(rec[k], minus_pt)
        # interior: below the plus plane, above the minus plane (w.r.t. rec)
        leaf_p = M.S(-sid_p if wr_p > 0 else sid_p)
        leaf_m = M.S(sid_m if wr_m > 0 else -sid_m)
        if flip[k]:
            leaves += [leaf_m, leaf_p]
            truth.append(-vecs[k])
        else:
            leaves += [leaf_p, leaf_m]
            truth.append(vecs[k])
    if family == 'planes-with-tr':
        # some of the planes carry a TR card of their own whose displacement
        # is parallel to the plane (and whose rotation, if any, is about the
        # plane's normal): the plane is unchanged as a set of points, but it
        # is no longer described from the same reference point as its partner
        chosen = rng.sample([lf[1] for lf in leaves],
                            rng.randint(1, len(leaves) - 1))
        for sid in chosen:
            sur = next(s_ for s_ in deck.surfs if s_.id == sid)
            k = [lf[1] for lf in leaves].index(sid) // 2
            nrm = rec[k] / np.linalg.norm(rec[k])
            shift = np.array([rnd(rng, -3, 3) for _ in range(3)])
            shift = shift - (shift @ nrm) * nrm
            tid = bld.next_tr
            bld.next_tr += 1
            deck.trs.append(tr_card(rng, tid, Motion([float(v) for v in shift]),
                                    rng.choice(['3', '12'])))
            sur.tr = tid
    ranges = _ranges(rng, ndim)
    if family == 'shorthand-long':
        # about a hundred elements, written with thirty or more repeats
        lo1, lo2 = rng.randint(-6, -3), rng.randint(-5, -3)
        ranges = [(lo1, lo1 + rng.randint(9, 11)), (lo2, lo2 + 8)]
        deck.tags.add('lat.long-array')
    ranges3 = ranges + [(0, 0)] * (3 - ndim)
    nuni = rng.randint(2, 4)
    universes = list(range(1, nuni + 1))
    for uni in universes:
        bld.element_universe(uni, min(lens[:ndim]))
    fil = _fill_for_lattice(bld, family, ranges3, ndim, universes, LAT_CELL)
    mat_l, rho_l = bld.material()
    lat = M.Cell(LAT_CELL, mat=mat_l, rho=rho_l, geom=_lattice_geom(family, leaves, rng),
                 imp={'n': '1'}, u=LAT_U, lat=1, fill=fil)
    lat.lat_info = M.LatticeTruth(1, origin, truth)
    if family == 'lat-trcl':
        mot = motion_of_class(rng, rng.choice(['translation', 'generic']))
        mot = Motion([rnd(rng, -0.5, 0.5) for _ in range(3)], mot.b)
        lat.trcl = tr_spec(rng, mot, 'inline12')
    deck.cells.append(lat)
    span = max(abs(v) for lo_hi in ranges for v in lo_hi) + 1
    span *= max(lens[:ndim])
    geom = _container(bld, family, span)
    fill_tr, trcl = _place(bld, family)
    cfill = _maybe_nested(bld, family, M.Fill(universe=LAT_U, tr=fill_tr), span)
    deck = finish(bld, geom, lat, cfill, trcl=trcl)
    deck.tags.add(f'c06.{family}')
    deck.tags.add(f'lat1.dim{ndim}')
    if skew:
        deck.tags.add('lat1.skew')
    _element_hints(deck, lat, truth, origin, ranges, cfill, trcl)
    return deck


def _build_macro_cell(bld, family):
    '''LAT=1 cell written as the inside of an RPP or BOX macrobody: the
    facets, in MCNP facet order, play the role of the listed surfaces (facet
    1 = +a1 side, facet 3 = +a2 side, facet 5 = +a3 side).'''
    rng = bld.rng
    deck = bld.deck
    lens = [rnd(rng, 1.3, 2.4) for _ in range(3)]
    origin = np.array([rnd(rng, -0.4, 0.4) for _ in range(3)])
    if family == 'rpp-cell':
        vecs = [np.eye(3)[k] * lens[k] for k in range(3)]
        par = []
        for k in range(3):
            par += [float(origin[k] - lens[k] / 2), float(origin[k] + lens[k] / 2)]
        deck.surfs.append(M.Surf(10, 'rpp', par))
    else:
        frame = random_rotation(rng)
        vecs = [frame[k] * lens[k] * (1 if rng.random() < 0.6 else -1)
                for k in range(3)]
        corner = origin - 0.5 * (vecs[0] + vecs[1] + vecs[2])
        deck.surfs.append(M.Surf(10, 'box', [float(v) for v in corner]
                                 + [float(v) for vec in vecs for v in vec]))
    ranges = _ranges(rng, 3, total_cap=36)
    nuni = rng.randint(2, 4)
    universes = list(range(1, nuni + 1))
    for uni in universes:
        bld.element_universe(uni, min(lens))
    fil = _fill_for_lattice(bld, rng.choice(['array', 'array-own',
                                             'cli-single']), ranges, 3,
                            universes, LAT_CELL)
    mat_l, rho_l = bld.material()
    lat = M.Cell(LAT_CELL, mat=mat_l, rho=rho_l, geom=M.S(-10),
                 imp={'n': '1'}, u=LAT_U, lat=1, fill=fil)
    lat.lat_info = M.LatticeTruth(1, origin, vecs)
    deck.cells.append(lat)
    span = (max(abs(v) for lo_hi in ranges for v in lo_hi) + 1) * max(lens)
    geom = _container(bld, family, span)
    cfill = M.Fill(universe=LAT_U)
    deck = finish(bld, geom, lat, cfill)
    deck.tags.add(f'c06.{family}')
    deck.tags.add('lat1.macrobody-cell')
    _element_hints(deck, lat, vecs, origin, ranges, cfill, None)
    return deck


def _element_hints(deck, lat, truth, origin, ranges, cfill, trcl):
    ref = M.Reference(deck)
    cont = deck.cell(getattr(deck, 'container_id', 1))
    mot = ref.fill_motion(cont)
    lmot = deck.motion_of(lat.trcl)
    pts = []
    idx_ranges = [range(lo - 1, hi + 2) for lo, hi in ranges]
    import itertools
    for idx in itertools.islice(itertools.product(*idx_ranges), 400):
        pnt = origin + sum(i * v for i, v in zip(idx, truth))
        if lmot is not None:
            pnt = lmot.to_main(pnt)
        if mot is not None:
            pnt = mot.to_main(pnt)
        pts.append(pnt)
    deck.hints = pts


# --------------------------------------------------------------------------
# hexagonal lattices
# --------------------------------------------------------------------------
def _hexagon(rng, irregular):
    th0 = rng.uniform(0, 2 * math.pi)
    rad = rnd(rng, 1.1, 1.8)
    for _ in range(100):
        verts2 = []
        for k in range(3):
            ang = th0 + k * math.pi / 3
            rr = rad
            if irregular:
                ang += rng.uniform(-0.25, 0.25)
                rr *= rng.uniform(0.8, 1.25)
            verts2.append(np.array([rr * math.cos(ang), rr * math.sin(ang)]))
        full = verts2 + [-v for v in verts2]
        # convexity: all turns in the same direction
        turns = []
        for k in range(6):
            a, b, c = full[k], full[(k + 1) % 6], full[(k + 2) % 6]
            turns.append((b[0] - a[0]) * (c[1] - b[1]) - (b[1] - a[1]) * (c[0] - b[0]))
        if all(t > 0.05 for t in turns):
            return full
    raise RuntimeError('no convex hexagon found')


def build_hex(rng, family):
    bld = LatBuilder(rng, f'C07 {family}')
    deck = bld.deck
    irregular = family.startswith('irregular') or \
        (not family.startswith('regular') and rng.random() < 0.5)
    axial = family.endswith('8') or family == 'flip-axial' or \
        (not family.endswith('6') and rng.random() < 0.5)
    rotated = family.startswith('rotated') or rng.random() < 0.3
    frame = random_rotation(rng) if rotated else \
        np.eye(3)[[[0, 1, 2], [1, 2, 0], [2, 0, 1]][rng.randrange(3)]]
    e1, e2, wax = frame[0], frame[1], frame[2]
    hex2 = _hexagon(rng, irregular)
    hexv = [v[0] * e1 + v[1] * e2 for v in hex2]
    origin = np.array([rnd(rng, -0.4, 0.4) for _ in range(3)])
    # side k joins vertex k and k+1; translation across it = v_k + v_{k+1}
    trans = [hexv[k] + hexv[(k + 1) % 6] for k in range(6)]
    normals = []
    for k in range(6):
        edge = hexv[(k + 1) % 6] - hexv[k]
        nrm = np.cross(edge, wax)
        if nrm @ hexv[k] < 0:
            nrm = -nrm
        normals.append(nrm / np.linalg.norm(nrm))
    first = rng.randrange(6)
    if family == 'handed-minus':
        step = -1
    elif family == 'handed-plus':
        step = 1
    elif family.startswith('nonadjacent'):
        # the third-listed side is two sides away from the first: a1 and a2
        # are 120 degrees apart (element (1,1) is then a neighbour)
        step = rng.choice([-2, 2])
    else:
        step = rng.choice([-1, 1])
    third = (first + step) % 6
    rest = [k for k in range(6) if k % 3 not in (first % 3, third % 3)]
    if family == 'swap-last' or rng.random() < 0.5:
        rest = rest[::-1]
    order = [first, (first + 3) % 6, third, (third + 3) % 6] + rest
    leaves = []
    for k in order:
        sid, wrote = bld.plane(normals[k], origin + hexv[k])
        leaves.append(M.S(-sid if wrote > 0 else sid))
    if family == 'side-planes-with-tr':
        # some side planes carry a TR whose displacement is along the prism
        # axis: the planes are unchanged as point sets
        tid = bld.next_tr
        bld.next_tr += 1
        shift = wax * rnd(rng, 1.0, 3.0) * (1 if rng.random() < 0.5 else -1)
        deck.trs.append(tr_card(rng, tid, Motion([float(v) for v in shift]),
                                rng.choice(['3', '12'])))
        side_ids = [lf[1] for lf in leaves]
        chosen = rng.sample(side_ids, rng.randint(1, 4))
        for sur in deck.surfs:
            if sur.id in chosen:
                sur.tr = tid
    truth = [trans[first], trans[third]]
    ndim = 2
    hgt = rnd(rng, 1.5, 2.5)
    end_normal = None
    if axial:
        ndim = 3
        top_first = family != 'flip-axial' and rng.random() < 0.6
        end = wax
        if family == 'oblique-8':
            # oblique prism: the two end planes are parallel to each other
            # but tilted with respect to the axis of the prism
            end = wax + rnd(rng, 0.2, 0.5) * rng.choice([-1, 1]) * e1 + \
                rnd(rng, -0.3, 0.3) * e2
            end = end / np.linalg.norm(end)
            end_normal = end
        sid_t, wr_t = bld.plane(end, origin + 0.5 * hgt * wax)
        sid_b, wr_b = bld.plane(end, origin - 0.5 * hgt * wax)
        if end_normal is not None:
            # neighbouring elements share whole faces: a1 and a2 are
            # parallel to the end planes
            truth = [v - wax * ((v @ end) / (wax @ end)) for v in truth]
        leaf_t = M.S(-sid_t if wr_t > 0 else sid_t)
        leaf_b = M.S(sid_b if wr_b > 0 else -sid_b)
        if top_first:
            leaves += [leaf_t, leaf_b]
            truth.append(hgt * wax)
        else:
            leaves += [leaf_b, leaf_t]
            truth.append(-hgt * wax)
    while True:
        ranges = _ranges(rng, ndim, total_cap=48)
        break
    ranges3 = ranges + [(0, 0)] * (3 - ndim)
    nuni = rng.randint(2, 4)
    universes = list(range(1, nuni + 1))
    for uni in universes:
        bld.element_universe(uni, 1.6)
    fam_fill = family if family in ('cli-single', 'array-own-zero',
                                    'fill-rotation') else 'array'
    fil = _fill_for_lattice(bld, fam_fill, ranges3, ndim, universes, LAT_CELL)
    mat_l, rho_l = bld.material()
    lat = M.Cell(LAT_CELL, mat=mat_l, rho=rho_l, geom=_lattice_geom(family, leaves, rng),
                 imp={'n': '1'}, u=LAT_U, lat=2, fill=fil)
    lat.lat_info = M.LatticeTruth(2, origin, truth, hexagon=hexv, axis=wax)
    deck.cells.append(lat)
    span = (max(abs(v) for lo_hi in ranges for v in lo_hi) + 1) * 3.0
    geom = _container(bld, family, span)
    fill_tr, trcl = _place(bld, family)
    cfill = _maybe_nested(bld, family, M.Fill(universe=LAT_U, tr=fill_tr), span)
    extra = []
    if family == 'two-pitches':
        # a second lattice whose sides have the same normals, senses and
        # listing order as the first one, but another pitch and position
        scale2 = rng.choice([rnd(rng, 0.6, 0.8), rnd(rng, 1.25, 1.5)])
        offset = np.array([rnd(rng, -0.5, 0.5) for _ in range(3)])
        if axial:
            # the two axial planes are shared by both lattices
            offset = offset - (offset @ wax) * wax
        origin2 = origin + offset
        leaves2 = []
        for k, leaf in zip(order, leaves[:6]):
            sid2 = bld.plane_like(leaf[1], origin2 + scale2 * hexv[k])
            leaves2.append(M.S(sid2 if leaf[2] > 0 else -sid2))
        leaves2 += list(leaves[6:])
        truth2 = [scale2 * truth[0], scale2 * truth[1]] + list(truth[2:])
        arr2 = _array(rng, ranges3, universes[::-1])
        fil2 = M.Fill(ranges=list(ranges3), array=arr2)
        mat2, rho2 = bld.material()
        lat2 = M.Cell(LAT_CELL + 10, mat=mat2, rho=rho2, geom=M.AND(*leaves2),
                      imp={'n': '1'}, u=LAT_U + 1, lat=2, fill=fil2)
        lat2.lat_info = M.LatticeTruth(2, origin2, truth2,
                                       hexagon=[scale2 * v for v in hexv])
        deck.cells.append(lat2)
        bld.deck.surfs.append(M.Surf(2, 'p', [float(v) for v in frame[0]]
                                     + [0.2]))
        geom1 = M.AND(geom, M.S(-2))
        mat3, rho3 = bld.material()
        extra.append(M.Cell(2, mat=mat3, rho=rho3, geom=M.AND(geom, M.S(2)),
                            imp={'n': '1'}, fill=M.Fill(universe=LAT_U + 1)))
        geom = geom1
    if family == 'two-lattices':
        # a second lattice cell bounded by the very same planes, listed
        # starting from another side: its a1, a2 differ
        side_leaf = {k: lf for k, lf in zip(order, leaves[:6])}
        first2 = (first + rng.choice([1, 2, 4, 5])) % 6
        step2 = rng.choice([-1, 1])
        third2 = (first2 + step2) % 6
        rest2 = [k for k in range(6) if k % 3 not in (first2 % 3, third2 % 3)]
        order2 = [first2, (first2 + 3) % 6, third2, (third2 + 3) % 6] + rest2
        leaves2 = [side_leaf[k] for k in order2] + list(leaves[6:])
        truth2 = [trans[first2], trans[third2]] + list(truth[2:])
        arr2 = _array(rng, ranges3, universes[::-1])
        fil2 = M.Fill(ranges=list(ranges3), array=arr2)
        mat2, rho2 = bld.material()
        lat2 = M.Cell(LAT_CELL + 10, mat=mat2, rho=rho2, geom=M.AND(*leaves2),
                      imp={'n': '1'}, u=LAT_U + 1, lat=2, fill=fil2)
        lat2.lat_info = M.LatticeTruth(2, origin, truth2, hexagon=hexv)
        deck.cells.append(lat2)
        # two half containers around the origin
        bld.deck.surfs.append(M.Surf(2, 'p', [float(v) for v in frame[0]]
                                     + [0.2]))
        geom1 = M.AND(geom, M.S(-2))
        mat3, rho3 = bld.material()
        extra.append(M.Cell(2, mat=mat3, rho=rho3, geom=M.AND(geom, M.S(2)),
                            imp={'n': '1'}, fill=M.Fill(universe=LAT_U + 1)))
        geom = geom1
    deck = finish(bld, geom, lat, cfill, trcl=trcl, extra_level0=extra)
    deck.tags.add(f'c07.{family}')
    deck.tags.add(f'lat2.planes{6 + 2 * axial}')
    deck.tags.add('lat2.irregular' if irregular else 'lat2.regular')
    _element_hints(deck, lat, truth, origin, ranges, cfill, trcl)
    return deck


def structure_of(deck):
    lat = deck.cell(LAT_CELL)
    fil = lat.fill
    arr = 'arr' + ''.join(str(v) for v in fil.array) if fil.array is not None \
        else f'single{fil.universe}'
    kinds = ','.join(s.kind for s in deck.surfs)
    return (f'{kinds}|{M.render_expr(lat.geom)}|{fil.ranges}|{arr}|'
            f'{sorted(deck.tags)}|{deck.cli}')
