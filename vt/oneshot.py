'''One conversion in a fresh interpreter (C18): python -m vt.oneshot ARGS...'''
import contextlib
import io
import sys

from . import shim


def main():
    shim.setup()
    from t4_geom_convert.main import conversion, parse_args
    argv = sys.argv[1:]
    sys.argv = ['t4_geom_convert'] + argv
    buf = io.StringIO()
    try:
        with contextlib.redirect_stdout(buf):
            conversion(parse_args(argv))
    except SystemExit as err:
        return 3 if err.code else 0
    except Exception as err:  # pylint: disable=broad-except
        sys.stderr.write(f'{type(err).__name__}: {err}\n')
        return 4
    return 0


if __name__ == '__main__':
    sys.exit(main())
