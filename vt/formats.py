'''MCNP-insignificant rewrites of a rendered deck (C14): the deck is taken as
blocks of cards, each card a list of typed atoms, and printed under a
formatting recipe.'''
import re

from . import model as M
from . import matref

NUM_RE = re.compile(r'^[-+]?(\d+\.?\d*|\.\d+)([eE][-+]?\d+)?$')


# --------------------------------------------------------------------------
# typed atoms
# --------------------------------------------------------------------------
def typed_cards(deck, expand_like=False, shorthand=None):
    '''Return (cells, surfs, data): lists of cards; a card is a list of
    (text, kind) with kind in id / word / num / rho / opt / tok.'''
    shorthand = shorthand or {}
    cells = []
    for cel in deck.cells:
        atoms = M.cell_atoms(deck, cel, expand_like=expand_like)
        if cel.fill is not None and cel.fill.array is not None and \
                shorthand.get('fill'):
            saved = getattr(cel.fill, 'render_array', None)
            cel.fill.render_array = collapse_runs(
                [str(v) for v in cel.fill.array])
            atoms = M.cell_atoms(deck, cel, expand_like=expand_like)
            cel.fill.render_array = saved
        card = []
        like = cel.like is not None and not expand_like
        in_paren = 0
        in_options = like
        for pos, atom in enumerate(atoms):
            if re.search(r'[a-zA-Z]', atom) and pos >= 2:
                in_options = True
            if like:
                kind = 'word' if atom in ('like', 'but') else \
                    ('id' if pos < 4 else 'opt')
            elif pos == 0 or pos == 1:
                kind = 'id'
            elif pos == 2 and int(cel.mat) != 0:
                kind = 'rho'
            else:
                kind = 'opt' if re.search(r'[a-zA-Z]', atom) else 'id'
            # numbers inside an inline transformation
            if kind in ('opt', 'id') and pos >= 2 and in_options:
                opens = atom.count('(')
                closes = atom.count(')')
                bare = atom.strip('()')
                first_of_paren = '(' in atom
                if (in_paren or first_of_paren) and NUM_RE.match(bare) and \
                        not re.search(r'[a-zA-Z]', atom):
                    # only multi-entry lists are transformations written out
                    kind = 'pnum'
                in_paren += opens - closes
            card.append((atom, kind))
        # a single number in parentheses is a TR number: keep it
        card = _fix_single_paren(card)
        cells.append(card)
    surfs = []
    for sur in deck.surfs:
        atoms = sur.atoms()
        card = [(atoms[0], 'id')]
        k = 1
        if sur.tr is not None:
            card.append((atoms[1], 'id'))
            k = 2
        card.append((atoms[k], 'word'))
        params = atoms[k + 1:]
        for j, par in enumerate(params):
            keep = sur.kind == 'arb' and j >= 24
            card.append((par, 'id' if keep else 'num'))
        surfs.append(card)
    data = []
    for trc in deck.trs:
        atoms = trc.atoms()
        body = atoms[1:]
        if shorthand.get('tr'):
            body = collapse_runs(body)
        data.append([(atoms[0], 'word')] +
                    [(a, 'num' if NUM_RE.match(a) else 'tok') for a in body])
    for parts, tokens in deck.imp_cards:
        toks = [str(t) for t in tokens]
        if shorthand.get('imp') == 'collapse':
            toks = collapse_runs([str(v) for v in _expand(tokens)])
        elif shorthand.get('imp') == 'expand':
            toks = [M.fnum(v) for v in _expand(tokens)]
        data.append([(f'imp:{parts}', 'word')] +
                    [(t, 'num' if NUM_RE.match(t) else 'tok') for t in toks])
    for mat in deck.mats:
        atoms = mat.atoms()
        card = [(atoms[0], 'word')]
        expect_frac = False
        for atom in atoms[1:]:
            if '=' in atom:
                card.append((atom, 'word'))
            elif expect_frac:
                card.append((atom, 'frac'))
                expect_frac = False
            else:
                card.append((atom, 'zaid'))
                expect_frac = True
        data.append(card)
    for extra in deck.extra_data:
        data.append([(a, 'id') for a in extra])
    for extra in getattr(deck, 'unrelated_data', ()):
        data.append([(a, 'id') for a in extra])
    if getattr(deck, 'data_shuffle', None) is not None:
        # the same order of the data cards as model.deck_cards (the order of
        # the material cards decides the order of the compositions)
        import random
        random.Random(deck.data_shuffle).shuffle(data)
    return cells, surfs, data


def _fix_single_paren(card):
    out = list(card)
    k = 0
    while k < len(out):
        text, kind = out[k]
        if kind == 'pnum' and '(' in text and ')' in text:
            out[k] = (text, 'id')        # "(7)" : a transformation number
        k += 1
    return out


def _expand(tokens):
    vals = M.expand_shorthand(tokens)
    return [int(v) if float(v) == int(v) else v for v in vals]


def collapse_runs(tokens):
    out = []
    k = 0
    while k < len(tokens):
        run = 1
        while k + run < len(tokens) and tokens[k + run] == tokens[k] and \
                NUM_RE.match(tokens[k]):
            run += 1
        out.append(tokens[k])
        if run == 2:
            out.append('r')
        elif run > 2:
            out.append(f'{run - 1}r')
        k += run
    return out


# --------------------------------------------------------------------------
# number respelling
# --------------------------------------------------------------------------
def respell(text, rng, style):
    '''Another spelling of the same decimal number.  style 'python': forms
    that both Python and Fortran read; 'fortran': forms only Fortran reads.'''
    match = NUM_RE.match(text)
    if not match:
        return text
    sign = ''
    body = text
    if body[0] in '+-':
        sign, body = body[0], body[1:]
    if 'e' in body.lower():
        # already has an exponent: only change the marker / case
        mant, exp = re.split('[eE]', body)
        if style == 'fortran':
            if exp[0] not in '+-':
                exp = '+' + exp
            return sign + mant + rng.choice([exp, 'd' + exp, 'D' + exp])
        return sign + mant + rng.choice(['e', 'E']) + exp
    if '.' not in body:
        intpart, frac = body, ''
    else:
        intpart, frac = body.split('.')
    digits = (intpart + frac).lstrip('0') or '0'
    choice = rng.randrange(6)
    if style == 'fortran':
        # mantissa with bare signed exponent or d-exponent, same value
        shift = rng.choice([0, 1, -1, 2])
        mant = _shift(intpart, frac, shift)
        exp = -shift
        tail = (f'{exp:+d}' if rng.random() < 0.5 else
                rng.choice(['d', 'D']) + f'{exp:+d}')
        return sign + mant + tail
    if choice == 0:
        return sign + intpart + '.' + frac + '0' * rng.randint(1, 3)
    if choice == 1:
        return (sign or '+') + body if sign != '-' else text
    if choice == 2:
        shift = rng.choice([1, -1, 2, 0])
        mant = _shift(intpart, frac, shift)
        return sign + mant + rng.choice(['e', 'E']) + f'{-shift:d}'
    if choice == 3 and intpart in ('0', '') and frac:
        return sign + '.' + frac
    if choice == 4 and not frac:
        return sign + intpart + '.'
    return sign + (intpart or '0') + '.' + (frac or '0')


def _shift(intpart, frac, shift):
    '''Decimal string of (intpart.frac) * 10**shift.'''
    digits = intpart + frac
    point = len(intpart) + shift
    if point <= 0:
        digits = '0' * (1 - point) + digits
        point = 1
    if point > len(digits):
        digits = digits + '0' * (point - len(digits))
    left, right = digits[:point], digits[point:]
    left = left.lstrip('0') or '0'
    return left + '.' + (right or '0')


# --------------------------------------------------------------------------
# recipes
# --------------------------------------------------------------------------
class Recipe:
    '''Choices of one rewrite.'''

    def __init__(self, rng, only=None):
        self.rng = rng
        feats = ['case', 'blanks', 'tabs', 'cont5', 'amp', 'ccomment',
                 'dollar', 'message', 'numbers', 'shorthand', 'delims',
                 'nofinalnl', 'indent', 'rho-any', 'extra-data']
        if only is not None:
            self.on = set(only)
        else:
            self.on = {f for f in feats if rng.random() < 0.4}
            if not self.on:
                self.on = {rng.choice(feats)}
        self.fortran_field = None      # set for the Fortran-only stratum
        self.case_mode = rng.choice(['upper', 'random', 'title'])

    def describe(self):
        return sorted(self.on) + ([f'fortran:{self.fortran_field}']
                                  if self.fortran_field else [])


def flip_case(text, rng, mode):
    if mode == 'upper':
        return text.upper()
    if mode == 'title':
        return text[:1].upper() + text[1:]
    return ''.join(ch.upper() if rng.random() < 0.5 else ch.lower()
                   for ch in text)


def atom_text(atom, kind, recipe, block):
    rng = recipe.rng
    text = atom
    if 'case' in recipe.on and kind in ('word', 'opt', 'tok', 'zaid'):
        text = flip_case(text, rng, recipe.case_mode)
    if 'numbers' in recipe.on and rng.random() < 0.6:
        if kind in ('num', 'frac'):
            text = respell(text, rng, 'python')
        elif kind == 'pnum':
            bare = text.strip('()')
            text = text.replace(bare, respell(bare, rng, 'python'))
        elif kind == 'rho':
            text = respell_rho(text, rng)
    if 'rho-any' in recipe.on and kind == 'rho' and rng.random() < 0.6:
        # any spelling of the same value, also outside C09's class (the
        # outputs are then compared by meaning, see semantic_view)
        text = respell(text, rng, rng.choice(['python', 'fortran']))
    fld = recipe.fortran_field
    if fld is not None:
        hit = ((fld == 'surface' and block == 's' and kind == 'num') or
               (fld == 'tr' and block == 'd' and kind == 'num') or
               (fld == 'material' and kind == 'frac') or
               (fld == 'density' and kind == 'rho') or
               (fld == 'inline' and kind == 'pnum'))
        if hit and fld == 'density':
            # inside C09's class: only the exponent marker may change
            match = re.match(r'^([-+]?[\d.]+)[eE]([-+]?)(\d+)$', text)
            if match:
                mant, esign, edig = match.groups()
                marks = ['d', 'D'] + ([''] if esign else [])
                text = mant + rng.choice(marks) + esign + edig
                recipe.fortran_used = True
        elif hit and rng.random() < 0.7:
            bare = text.strip('()')
            text = text.replace(bare, respell(bare, rng, 'fortran'))
            recipe.fortran_used = True
    return text


def respell_rho(text, rng):
    '''Density respellings inside C09's class only.'''
    if re.match(r'^[-+]?\d*\.\d+$', text):
        return text + '0' * rng.randint(1, 2)
    match = re.match(r'^([-+]?[\d.]+)[eE]([-+]\d+)$', text)
    if match:
        return match.group(1) + rng.choice(['e', 'E', 'd', 'D', '']) + \
            match.group(2)
    return text


COMMENTS = ['c', 'c comment', 'C  A COMMENT with 1 2 3', 'c  imp:n=0 fill=3',
            '  c indented comment', 'c $ & ( ) : #', 'c ---------',
            'c\ttab after the c', 'C\t', '    c\t1 2 3', 'c \t mixed',
            # characters that end a "line" for str.splitlines(), not for MCNP
            'c ---- end of page 1 ----\x0c', 'c kept:\x0c     : -3 #1',
            'c first\u2028second 1 2 3', 'c a\x85b', 'c vt\x0b     99',
            'c fs\x1c gs\x1d rs\x1e']


def render_card(card, recipe, block):
    rng = recipe.rng
    texts = [atom_text(a, k, recipe, block) for a, k in card]
    lines = []
    cur = ''
    if 'indent' in recipe.on:
        cur = ' ' * rng.randint(0, 4)
    cur += texts[0]
    pending_amp = False
    for text in texts[1:]:
        sep = ' '
        if 'blanks' in recipe.on and rng.random() < 0.4:
            sep = ' ' * rng.randint(2, 6)
        if 'tabs' in recipe.on and rng.random() < 0.3:
            sep = '\t' if rng.random() < 0.5 else ' \t '
        width = len(_expand_tabs(cur + sep + text))
        want_break = width > 72
        if not want_break:
            if 'cont5' in recipe.on and rng.random() < 0.25:
                want_break = True
            if 'amp' in recipe.on and rng.random() < 0.25:
                want_break = True
        if want_break:
            use_amp = 'amp' in recipe.on and rng.random() < 0.6
            if use_amp:
                cur += ' &'
                if rng.random() < 0.3:
                    cur += '   '
            if 'dollar' in recipe.on and rng.random() < 0.4:
                cur += ' $ note ' + rng.choice(['1 2 3', 'px & so', 'u=5',
                                                 'see page 3\x0cof the report',
                                                 'a\u2028b'])
            lines.append(cur)
            if 'ccomment' in recipe.on and rng.random() < 0.3:
                lines.append(rng.choice(COMMENTS))
            if use_amp:
                lead = ' ' * rng.randint(0, 7)
                if lead == '' and text[:1] in 'cC' and len(text) == 1:
                    lead = ' ' * 6
            else:
                lead = ' ' * rng.randint(5, 9)
                if 'tabs' in recipe.on and rng.random() < 0.3:
                    lead = '\t'
            cur = lead + text
        else:
            cur += sep + text
    if 'dollar' in recipe.on and rng.random() < 0.3:
        cur += ' $ trailing comment'
    lines.append(cur)
    return lines


def _expand_tabs(line):
    out = ''
    for char in line:
        if char == '\t':
            out += ' ' * (8 - len(out) % 8)
        else:
            out += char
    return out


def render_rewrite(deck, recipe, expand_like=False):
    rng = recipe.rng
    shorthand = {}
    if 'shorthand' in recipe.on:
        shorthand = {'fill': rng.random() < 0.7, 'tr': rng.random() < 0.5,
                     'imp': rng.choice(['collapse', 'expand'])}
    cells, surfs, data = typed_cards(deck, expand_like, shorthand)
    if 'extra-data' in recipe.on:
        # data cards that have nothing to do with the geometry, at random
        # places of the data block
        pool = [['mode', 'n'], ['nps', '1000'], ['sdef', 'pos=0', '0', '0',
                                                  'erg=1'],
                ['f4:n', '1'], ['mt1', 'lwtr.10t'], ['cut:n', '1e8'],
                ['phys:n', '20'], ['print'], ['prdmp', '2j', '1'],
                ['kcode', '1000', '1.0', '10', '50'], ['ksrc', '0', '0', '0'],
                ['e4', '1e-6', '1', '20'], ['totnu'], ['rand', 'gen=2'],
                ['void'], ['tmp1', '2.5e-8'], ['area', '1', '2r'],
                ['vol', '1', '1']]
        for card in rng.sample(pool, rng.randint(1, 5)):
            data.insert(rng.randint(0, len(data)), [(tok, 'id') for tok in card])
    lines = []
    if 'message' in recipe.on:
        lines += ['message: outp=dummy.o runtpe=dummy.r', '']
    title = deck.title
    if 'blanks' in recipe.on or 'indent' in recipe.on:
        # the title card is free text: centred titles start with many blanks
        title = ' ' * rng.choice([0, 3, 19, 20, 25, 40]) + title
    lines.append(title)
    for block_id, block in (('c', cells), ('s', surfs), ('d', data)):
        for card in block:
            if 'ccomment' in recipe.on and rng.random() < 0.3:
                lines.append(rng.choice(COMMENTS))
            lines.extend(render_card(card, recipe, block_id))
        if block_id != 'd':
            delim = ''
            if 'delims' in recipe.on:
                delim = rng.choice(['', '   ', ' ', '\t'])
            lines.append(delim)
    text = '\n'.join(lines)
    if 'nofinalnl' not in recipe.on:
        text += '\n'
    return text


# --------------------------------------------------------------------------
# canonical comparison of outputs
# --------------------------------------------------------------------------
_NUMTOK = re.compile(r'^[-+]?(\d+\.?\d*|\.\d+)([eE][-+]?\d+)?$')


def canonical(output, fortran=False):
    '''Tokens of a written file without its three header lines; numeric
    tokens replaced by their float value.'''
    lines = output.split('\n')
    while lines and lines[0].startswith('//'):
        lines.pop(0)
    toks = []
    for line in lines:
        for tok in line.split():
            if _NUMTOK.match(tok):
                toks.append(float(tok))
            elif fortran and _is_fortran(tok):
                toks.append(matref.fortran_float(tok))
            else:
                toks.append(tok)
        toks.append('\n')
    return toks


def _is_fortran(tok):
    try:
        matref.fortran_float(tok)
        return True
    except ValueError:
        return False


def first_difference(out_a, out_b, fortran=False):
    ta, tb = canonical(out_a, fortran), canonical(out_b, fortran)
    if ta == tb:
        return None
    for k, (xa, xb) in enumerate(zip(ta, tb)):
        if xa != xb:
            lo = max(0, k - 8)
            return {'index': k, 'a': ta[lo:k + 4], 'b': tb[lo:k + 4]}
    return {'index': min(len(ta), len(tb)), 'a': ta[-6:], 'b': tb[-6:],
            'length': (len(ta), len(tb))}


def semantic_view(output):
    '''Meaning of a written file up to the naming of compositions:
    geometry tokens, volume -> (material, density value), and
    (material, density value) -> composition body.  Returns None if a
    GEOMCOMP name is undefined or two compositions of one (material, value)
    differ.'''
    from . import t4file
    t4 = t4file.parse(output)
    geom = []
    for sid in t4.surf_order:
        srf = t4.surfs[sid]
        geom.append(('S', sid, srf.type, tuple(srf.params), srf.tr))
    for tid, vals in sorted(t4.transforms.items()):
        geom.append(('T', tid, tuple(vals)))
    for vid in t4.volu_order:
        vol = t4.volus[vid]
        geom.append(('V', vid, tuple(vol.plus), tuple(vol.minus), vol.op,
                     vol.fictive, vol.comment))
    comps = {}
    for comp in t4.compositions:
        key = matref.parse_comp_name(comp['name'])
        body = (comp['kind'],
                None if comp['density'] is None
                else matref.fortran_float(comp['density']),
                comp['nb_atom'],
                tuple((n, matref.fortran_float(v)) for n, v in comp['items']))
        if key in comps and comps[key] != body:
            return None
        comps[key] = body
    assoc = {}
    written = {comp['name'] for comp in t4.compositions}
    for name, _n, ids in t4.geomcomp:
        key = matref.parse_comp_name(name)
        if t4.has_compo and name not in written:
            return None          # GEOMCOMP names an undefined composition
        for vid in ids:
            assoc[vid] = key
    return geom, assoc, comps, tuple(t4.bc)
