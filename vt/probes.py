'''Probe-point generation and the region-agreement oracle "R" (DESIGN §2.4, §3).

Both the reference model and the written file label every point with the
multiset of volume keys holding it.  Probes are uniform points, generator
hints, and straddling pairs found by bisection across the boundaries of
*either* labelling, so that both the places where MCNP has a boundary and the
places where the file has one are hit at distance delta on both sides.
'''
import numpy as np

from .t4eval import Evaluator


def volume_key(vol, deck_cells):
    if vol.chain is None:
        return ('v', vol.id)
    return ('c', tuple((a if a in deck_cells else None,
                        b if b in deck_cells else None)
                       for a, b in vol.chain))


class Labels:
    '''Interns multisets of keys as small integers shared by both sides.'''

    def __init__(self):
        self.table = {}
        self.back = []

    def intern(self, keys):
        tup = tuple(sorted(keys, key=repr))
        lab = self.table.get(tup)
        if lab is None:
            lab = len(self.back)
            self.table[tup] = lab
            self.back.append(tup)
        return lab


class Sides:
    '''The two labellings of one (deck, file) pair.'''

    def __init__(self, reference, t4, only_keys=None):
        self.ref = reference
        self.t4 = t4
        self.labels = Labels()
        self.cells = {c.id for c in reference.deck.cells}
        self.evalr = Evaluator(t4)
        self.vkeys = {vid: volume_key(vol, self.cells)
                      for vid, vol in t4.volus.items() if not vol.fictive}
        self.n_eval = 0

    def expected(self, pts):
        sets = self.ref.locate(pts)
        self.n_eval += len(pts)
        return np.array([self.labels.intern(s) for s in sets], dtype=np.int64)

    def actual(self, pts):
        batch = self.evalr.batch(pts)
        keys = [[] for _ in range(len(pts))]
        for vid, key in self.vkeys.items():
            mask = batch.inside(vid)
            for i in np.nonzero(mask)[0]:
                keys[i].append(key)
        return np.array([self.labels.intern(k) for k in keys], dtype=np.int64)

    def describe(self, lab):
        return [list(k) if k[0] == 'v' else ['c', [list(p) for p in k[1]]]
                for k in self.labels.back[lab]]


class FileSides(Sides):
    '''Two written files of the same deck compared with each other: file A
    plays the role of the expectation.'''

    def __init__(self, t4_a, t4_b, deck_cells):
        self.labels = Labels()
        self.cells = set(deck_cells)
        self.t4 = t4_b
        self.evalr = Evaluator(t4_b)
        self.evalr_a = Evaluator(t4_a)
        self.vkeys = {vid: volume_key(vol, self.cells)
                      for vid, vol in t4_b.volus.items() if not vol.fictive}
        self.vkeys_a = {vid: volume_key(vol, self.cells)
                        for vid, vol in t4_a.volus.items() if not vol.fictive}
        self.n_eval = 0

    def expected(self, pts):
        batch = self.evalr_a.batch(pts)
        keys = [[] for _ in range(len(pts))]
        for vid, key in self.vkeys_a.items():
            mask = batch.inside(vid)
            for i in np.nonzero(mask)[0]:
                keys[i].append(key)
        return np.array([self.labels.intern(k) for k in keys], dtype=np.int64)


def _bisect(labfn, lo, hi, llo, iters=30):
    '''Shrink segments [lo, hi] whose end labels differ onto a boundary.'''
    lo = lo.copy()
    hi = hi.copy()
    for _ in range(iters):
        mid = 0.5 * (lo + hi)
        lmid = labfn(mid)
        same = lmid == llo
        lo[same] = mid[same]
        hi[~same] = mid[~same]
    return 0.5 * (lo + hi)


def make_probes(rng, sides, world, n_uniform=1500, hints=None, delta=1e-3,
                max_pairs=400):
    '''Return the array of probe points for one deck.'''
    nprng = np.random.default_rng(rng.getrandbits(63))
    uni = nprng.uniform(-world, world, (n_uniform, 3))
    chunks = [uni]
    if hints is not None and len(hints):
        hints = np.asarray(hints, dtype=float).reshape(-1, 3)
        chunks.append(hints)
        chunks.append(hints + nprng.normal(0, 0.05, hints.shape))
        chunks.append(hints + nprng.normal(0, 0.5, hints.shape))
    base = np.vstack(chunks)
    lab_e = sides.expected(base)
    lab_a = sides.actual(base)
    out = [base]
    n_base = len(base)
    for labfn, lab in ((sides.expected, lab_e), (sides.actual, lab_a)):
        starts, ends = [], []
        # random partners
        perm = nprng.permutation(n_base)
        diff = np.nonzero(lab != lab[perm])[0]
        if len(diff) > max_pairs:
            diff = nprng.choice(diff, max_pairs, replace=False)
        starts.append(base[diff])
        ends.append(base[perm[diff]])
        lab_s = [lab[diff]]
        # local partners
        for spread in (0.3, 1.5):
            sel = nprng.choice(n_base, min(n_base, 2 * max_pairs),
                               replace=False)
            near = base[sel] + nprng.normal(0, spread, (len(sel), 3))
            lnear = labfn(near)
            dif2 = np.nonzero(lnear != lab[sel])[0]
            if len(dif2) > max_pairs:
                dif2 = nprng.choice(dif2, max_pairs, replace=False)
            starts.append(base[sel][dif2])
            ends.append(near[dif2])
            lab_s.append(lab[sel][dif2])
        lo = np.vstack(starts)
        hi = np.vstack(ends)
        if not len(lo):
            continue
        llo = np.concatenate(lab_s)
        root = _bisect(labfn, lo, hi, llo)
        dirs = hi - lo
        norm = np.linalg.norm(dirs, axis=1, keepdims=True)
        norm[norm == 0] = 1.0
        dirs = dirs / norm
        for step in (delta, 30 * delta):
            out.append(root + step * dirs)
            out.append(root - step * dirs)
    return np.vstack(out)


def agree(sides, pts, eps=5e-5, unjudged=None):
    '''Compare the two labellings at the probes.  Returns (judged, discarded,
    mismatches) where each mismatch is a dict with the point and both
    labellings written out.  A mismatching probe is judged only if both
    labellings are constant on the six points at distance eps around it
    ("every point off the surfaces").'''
    lab_e = sides.expected(pts)
    lab_a = sides.actual(pts)
    bad = np.nonzero(lab_e != lab_a)[0]
    discarded = 0
    if unjudged is not None and len(pts):
        mask = unjudged(pts)
        discarded += int(mask.sum())
        bad = np.array([i for i in bad if not mask[i]], dtype=int)
    mismatches = []
    if len(bad):
        offs = np.vstack([np.eye(3), -np.eye(3)]) * eps
        stable = np.ones(len(bad), dtype=bool)
        for off in offs:
            moved = pts[bad] + off
            stable &= sides.expected(moved) == lab_e[bad]
            stable &= sides.actual(moved) == lab_a[bad]
        discarded += int((~stable).sum())
        for i in bad[stable]:
            mismatches.append({
                'point': [float(v) for v in pts[i]],
                'expected': sides.describe(lab_e[i]),
                'actual': sides.describe(lab_a[i]),
            })
    judged = len(pts) - discarded
    return judged, discarded, mismatches
