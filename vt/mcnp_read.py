'''An independent reader of MCNP decks into the harness's deck model
(`vt/model.py`), so that the reference semantics can be applied to decks the
harness did not generate - the repository's own example decks.  It shares no
code with the converter's parser (MIP, TatSu grammar, ParseMCNPCell).

It is deliberately partial: whatever it does not understand with certainty
raises Unsupported, and that deck is then left to the checks that need no
reference (C08, C13, C18).  Lattice cells get their LatticeTruth from the
geometry of their bounding planes (`lattice_truth`), following the statement
of C06/C07: a_k carries the unit cell across the first-listed surface of the
k-th pair (hexagonal: first and third listed side, seventh for the axis).
'''
import math
import re

import numpy as np

from . import model as M
from . import mcnp_ref as ref
from .matref import fortran_float


class Unsupported(Exception):
    '''The deck uses something this reader does not model.'''


MACRO = {'box', 'rpp', 'sph', 'rcc', 'rhp', 'hex', 'rec', 'trc', 'ell', 'wed',
         'arb'}
ELEMENTARY = {'p', 'px', 'py', 'pz', 'so', 's', 'sx', 'sy', 'sz', 'c/x',
              'c/y', 'c/z', 'cx', 'cy', 'cz', 'k/x', 'k/y', 'k/z', 'kx', 'ky',
              'kz', 'sq', 'gq', 'tx', 'ty', 'tz', 'x', 'y', 'z'}

_COMMENT = re.compile(r'^ {0,4}c( |$)', re.I)


# --------------------------------------------------------------------------
# text -> cards
# --------------------------------------------------------------------------
def cards_of(text):
    '''Returns (title, [cell cards], [surface cards], [data cards]); a card is
    one string, lower-cased, comments and continuations resolved.'''
    lines = text.replace('\t', '        ').split('\n')
    pos = 0
    if lines and lines[0].lower().startswith('message:'):
        while pos < len(lines) and lines[pos].strip():
            pos += 1
        pos += 1
    title = lines[pos] if pos < len(lines) else ''
    pos += 1
    blocks = [[]]
    for line in lines[pos:]:
        if not line.strip():
            blocks.append([])
            if len(blocks) > 3:
                break
            continue
        blocks[-1].append(line)
    blocks = [b for b in blocks[:3]] + [[]] * (3 - len(blocks[:3]))
    out = []
    for block in blocks[:3]:
        cards = []
        amp = False
        for line in block:
            if _COMMENT.match(line):
                continue
            code = line.split('$', 1)[0].rstrip()
            if not code.strip():
                continue
            cont = amp or code.startswith('     ')
            amp = code.endswith('&')
            if amp:
                code = code[:-1]
            if cont and cards:
                cards[-1] += ' ' + code.strip()
            else:
                cards.append(code.strip())
        out.append([c.lower() for c in cards])
    return title, out[0], out[1], out[2]


def number(tok):
    try:
        return fortran_float(tok)
    except ValueError as err:
        raise Unsupported(f'not a number: {tok!r}') from err


def integer(tok):
    val = number(tok)
    if val != int(val):
        raise Unsupported(f'not an integer: {tok!r}')
    return int(val)


# --------------------------------------------------------------------------
# cells
# --------------------------------------------------------------------------
_PART = re.compile(r'\b(imp|ext|fcl|elpt|unc|dxc\d*|wwn\d*|pd\d*)\s*:\s*'
                   r'([a-z|#/]+(?:\s*,\s*[a-z|#/]+)*)')
_TOKEN = re.compile(r'[()#:=]|[^\s()#:=]+')
_LEAF = re.compile(r'^([+-]?)(\d+)(?:\.(\d+))?$')
_KEYWORD = re.compile(r'^\*?[a-z][a-z0-9@,|#/]*$')


def tokens_of(card):
    card = _PART.sub(lambda m: m.group(1) + '@'
                     + m.group(2).replace(' ', ''), card)
    return _TOKEN.findall(card)


class _Geom:
    '''Recursive descent over the geometry tokens: ':' binds loosest, blank
    (juxtaposition) is intersection, '#' complements what follows.'''

    def __init__(self, toks):
        self.toks = toks
        self.pos = 0

    def peek(self):
        return self.toks[self.pos] if self.pos < len(self.toks) else None

    def union(self):
        terms = [self.inter()]
        while self.peek() == ':':
            self.pos += 1
            terms.append(self.inter())
        return terms[0] if len(terms) == 1 else (':',) + tuple(terms)

    def inter(self):
        facs = []
        while self.peek() not in (None, ':', ')'):
            facs.append(self.factor())
        if not facs:
            raise Unsupported('empty intersection')
        return facs[0] if len(facs) == 1 else ('*',) + tuple(facs)

    def factor(self):
        tok = self.peek()
        if tok == '#':
            self.pos += 1
            nxt = self.peek()
            if nxt == '(':
                return ('#', self.factor())
            match = _LEAF.match(nxt or '')
            if not match or match.group(1) or match.group(3):
                raise Unsupported(f'# followed by {nxt!r}')
            self.pos += 1
            return ('^', int(match.group(2)))
        if tok == '(':
            self.pos += 1
            inner = self.union()
            if self.peek() != ')':
                raise Unsupported('unbalanced parentheses')
            self.pos += 1
            return inner
        match = _LEAF.match(tok)
        if not match:
            raise Unsupported(f'geometry token {tok!r}')
        self.pos += 1
        sign = -1 if match.group(1) == '-' else 1
        facet = int(match.group(3)) if match.group(3) else None
        return ('s', int(match.group(2)), sign, facet)


def parse_geometry(toks):
    par = _Geom(toks)
    expr = par.union()
    if par.pos != len(toks):
        raise Unsupported('trailing geometry tokens')
    return expr


def split_params(toks):
    '''[(keyword, [value tokens])] of the parameter part of a cell card.'''
    out = []
    for tok in toks:
        if tok == '=':
            continue
        if _KEYWORD.match(tok) and not _is_shorthand(tok):
            out.append((tok, []))
        else:
            if not out:
                raise Unsupported(f'value {tok!r} before any keyword')
            out[-1][1].append(tok)
    return out


def _is_shorthand(tok):
    return bool(re.match(r'^\d*[rijm]$', tok)) or \
        bool(re.match(r'^[+-]?(\d+\.?\d*|\.\d+)([ed][+-]?\d+)?$', tok))


def motion_of_numbers(nums, starred):
    '''Rigid motion of a list of 3..13 transformation entries (None = J).'''
    nums = list(nums)
    if len(nums) > 13:
        raise Unsupported('transformation with more than 13 entries')
    mflag = 1
    if len(nums) == 13:
        mflag = nums.pop()
        if mflag is None:
            mflag = 1
    if mflag != 1:
        raise Unsupported('transformation with m != 1')
    org = [0.0 if v is None else float(v) for v in (nums[:3] + [0, 0, 0])[:3]]
    ent = nums[3:]
    if starred:
        ent = [None if v is None else math.cos(math.radians(v)) for v in ent]
    if not ent or all(v is None for v in ent):
        return ref.Motion(org, np.eye(3)), org, []
    bmat = ref.complete_rotation(ent)
    if bmat is None:
        raise Unsupported('abbreviated rotation matrix')
    return ref.Motion(org, bmat), org, nums[3:]


def read_spec(vals, starred):
    '''TrSpec of the value tokens of TRCL= or of the parenthesised part of
    FILL=.'''
    vals = [v for v in vals if v not in ('(', ')')]
    if not vals:
        raise Unsupported('empty transformation')
    if len(vals) == 1:
        return M.TrSpec(number=integer(vals[0]))
    nums = M.expand_shorthand(vals)
    mot, org, ent = motion_of_numbers(nums, starred)
    return M.TrSpec(origin=org, entries=ent, starred=starred, motion=mot)


def read_fill(vals, starred):
    spec = None
    if '(' in vals:
        k = vals.index('(')
        if vals[-1] != ')':
            raise Unsupported('FILL: text after the transformation')
        spec = read_spec(vals[k:], starred)
        vals = vals[:k]
    ranges = []
    k = 0
    while k + 2 < len(vals) and vals[k + 1] == ':':
        ranges.append((integer(vals[k]), integer(vals[k + 2])))
        k += 3
    rest = vals[k:]
    if ':' in rest:
        raise Unsupported('FILL: stray colon')
    if ranges:
        arr = M.expand_shorthand(rest)
        if any(v is None for v in arr):
            raise Unsupported('FILL array with jumps')
        size = 1
        for low, high in ranges:
            size *= high - low + 1
        if len(arr) != size:
            raise Unsupported('FILL array of the wrong length')
        ranges += [(0, 0)] * (3 - len(ranges))
        return M.Fill(ranges=ranges, array=[int(v) for v in arr], tr=spec)
    if len(rest) != 1:
        raise Unsupported(f'FILL values {rest}')
    return M.Fill(universe=integer(rest[0]), tr=spec)


def apply_params(cel, params):
    for key, vals in params:
        starred = key.startswith('*')
        name = key.lstrip('*')
        if name.startswith('imp@'):
            if len(vals) != 1:
                raise Unsupported('IMP with several values')
            imp = dict(cel.imp or {})
            for part in name[4:].split(','):
                imp[part] = vals[0]
            cel.imp = imp
        elif name == 'u':
            val = integer(vals[0])
            cel.u = abs(val) or None
            cel.u_negative = val < 0
        elif name == 'lat':
            cel.lat = integer(vals[0])
        elif name == 'fill':
            cel.fill = read_fill(vals, starred)
        elif name == 'trcl':
            cel.trcl = read_spec(vals, starred)
        elif name == 'mat':
            cel.mat = integer(vals[0])
            if cel.mat == 0:
                cel.rho = None
        elif name == 'rho':
            cel.rho = vals[0]
        elif name in ('vol', 'nonu', 'pwt', 'cosy', 'bflcl') or \
                name.startswith(('tmp', 'ext@', 'fcl@', 'elpt@', 'unc@', 'dxc',
                                 'wwn', 'pd')):
            continue
        else:
            raise Unsupported(f'cell keyword {key!r}')


def read_cells(cards):
    raw = {}
    order = []
    for card in cards:
        toks = tokens_of(card)
        cid = integer(toks[0])
        if cid in raw:
            raise Unsupported(f'cell {cid} defined twice')
        raw[cid] = toks[1:]
        order.append(cid)
    done = {}

    def resolve(cid, stack=()):
        if cid in done:
            return done[cid]
        if cid in stack or cid not in raw:
            raise Unsupported(f'LIKE chain through {cid}')
        toks = raw[cid]
        if toks and toks[0] == 'like':
            if len(toks) < 3 or toks[2] != 'but':
                raise Unsupported('LIKE without BUT')
            base = resolve(integer(toks[1]), stack + (cid,))
            cel = base.copy()
            cel.id = cid
            cel.like = base.id
            apply_params(cel, split_params(toks[3:]))
        else:
            mat = integer(toks[0])
            k = 1
            rho = None
            if mat != 0:
                rho = toks[1]
                number(rho)
                k = 2
            stop = k
            while stop < len(toks) and not (
                    _KEYWORD.match(toks[stop])
                    and not _LEAF.match(toks[stop])):
                stop += 1
            cel = M.Cell(cid, mat=mat, rho=rho,
                         geom=parse_geometry(toks[k:stop]))
            apply_params(cel, split_params(toks[stop:]))
        done[cid] = cel
        return cel
    return [resolve(cid) for cid in order]


# --------------------------------------------------------------------------
# surfaces and data
# --------------------------------------------------------------------------
def read_surfaces(cards):
    out = []
    for card in cards:
        toks = card.split()
        flag = ''
        if toks[0][0] in '*+':
            flag = toks[0][0]
            toks[0] = toks[0][1:]
            if not toks[0]:
                toks.pop(0)
        sid = integer(toks[0])
        k = 1
        trn = None
        if re.match(r'^[+-]?\d+$', toks[k]):
            trn = int(toks[k])
            if trn < 0:
                raise Unsupported('periodic surface')
            trn = trn or None
            k += 1
        kind = toks[k]
        if kind not in MACRO and kind not in ELEMENTARY:
            raise Unsupported(f'surface mnemonic {kind!r}')
        vals = M.expand_shorthand(toks[k + 1:])
        if any(v is None for v in vals):
            raise Unsupported('jump in surface parameters')
        out.append(M.Surf(sid, kind, vals, tr=trn, flag=flag))
    return out


def read_data(cards, deck):
    for card in cards:
        toks = card.replace('=', ' ').split()
        head = toks[0]
        match = re.match(r'^(\*?)tr(\d+)$', head)
        if match:
            starred = bool(match.group(1))
            nums = M.expand_shorthand(toks[1:])
            mot, org, ent = motion_of_numbers(nums, starred)
            deck.trs.append(M.TrCard(int(match.group(2)), org, ent,
                                     starred=starred, motion=mot))
            bmat = mot.b
            if not np.allclose(bmat @ bmat.T, np.eye(3), atol=1e-9):
                deck.rounded_matrices = True
            continue
        match = re.match(r'^m(\d+)$', head)
        if match:
            # keyword entries (nlib 70c) come in pairs name value
            clean = []
            skip = False
            for tok in toks[1:]:
                if skip:
                    skip = False
                    continue
                if re.match(r'^[a-z]', tok):
                    skip = True
                    continue
                clean.append(tok)
            pairs = list(zip(clean[0::2], clean[1::2]))
            deck.mats.append(M.Material(int(match.group(1)), pairs))
            continue
        match = re.match(r'^imp:([a-z,]+)$', head)
        if match:
            deck.imp_cards.append((match.group(1), toks[1:]))
            continue
    return deck


# --------------------------------------------------------------------------
# lattice truth from the bounding planes
# --------------------------------------------------------------------------
def _plane_of_leaf(refe, leaf):
    '''(gradient, constant) of the linear function whose sign is the sense of
    `leaf`'s surface, found by evaluating the reference itself; None if it is
    not a plane.'''
    probe = np.array([[0., 0, 0], [1, 0, 0], [0, 1, 0], [0, 0, 1],
                      [0.37, -1.21, 2.3], [-3.1, 0.4, 0.9]])
    vals = np.asarray(refe.leaf_sense(leaf, probe), dtype=float)
    grad = vals[1:4] - vals[0]
    for pnt, val in zip(probe[4:], vals[4:]):
        if abs(grad @ pnt + vals[0] - val) > 1e-9 * max(1.0, abs(val)):
            return None
    norm = np.linalg.norm(grad)
    if norm < 1e-12:
        return None
    return grad / norm, vals[0] / norm


def _lattice_leaves(refe, cel):
    '''The bounding planes of a lattice cell in listing order, as
    (unit normal pointing out of the cell, offset c with n.x = c on the
    plane).'''
    geom = cel.geom
    leaves = list(geom[1:]) if geom[0] == '*' else [geom]
    flat = []
    for leaf in leaves:
        while leaf[0] == 'g' or (leaf[0] == '*' and len(leaf) == 2):
            leaf = leaf[1]
        if leaf[0] == '*':
            flat.extend(leaf[1:])
        else:
            flat.append(leaf)
    planes = []
    for leaf in flat:
        if leaf[0] != 's':
            raise Unsupported('lattice cell that is not an intersection of '
                              'surfaces')
        sur = refe.surfs.get(leaf[1])
        if sur is not None and sur.is_macro and leaf[3] is None:
            if leaf[2] > 0:
                raise Unsupported('lattice cell outside a macrobody')
            nfac = ref.n_facets(sur.kind, sur.params)
            for k in range(1, nfac + 1):
                planes.append(('s', leaf[1], -1, k))
        else:
            planes.append(leaf)
    out = []
    for leaf in planes:
        got = _plane_of_leaf(refe, leaf)
        if got is None:
            raise Unsupported('lattice cell bounded by a curved surface')
        grad, const = got          # sense function = grad.x + const
        sign = leaf[2]             # the cell lies where sign * f > 0
        # outward normal: direction in which sign * f decreases
        out.append((-sign * grad, sign * const))   # n.x = c on the plane
    return out


def lattice_truth(refe, cel):
    planes = _lattice_leaves(refe, cel)
    if cel.lat == 1:
        if len(planes) not in (2, 4, 6):
            raise Unsupported('LAT=1 cell with an odd number of planes')
        pairs = [(planes[k], planes[k + 1]) for k in range(0, len(planes), 2)]
        normals = []
        for (n_a, c_a), (n_b, c_b) in pairs:
            if abs(n_a @ n_b + 1.0) > 1e-9:
                raise Unsupported('LAT=1 planes of a pair are not parallel')
            normals.append(n_a)
        ndim = len(pairs)
        # centre of the unit cell: n_a.x = (c_a - c_b) / 2 for every pair
        rows = np.array(normals)
        rhs = np.array([(c_a - c_b) / 2 for (_na, c_a), (_nb, c_b) in pairs])
        origin = np.linalg.lstsq(rows, rhs, rcond=None)[0]
        vecs = []
        for k, ((n_a, c_a), (_n_b, c_b)) in enumerate(pairs):
            others = [normals[j] for j in range(ndim) if j != k]
            if ndim == 3:
                direc = np.cross(others[0], others[1])
            elif ndim == 2:
                direc = np.cross(others[0], np.cross(normals[0], normals[1]))
            else:
                direc = n_a
            width = c_a + c_b          # distance between the two planes
            scale = width / (direc @ n_a)
            vecs.append(direc * scale)
        return M.LatticeTruth(1, origin, vecs)
    if cel.lat == 2:
        if len(planes) not in (6, 8):
            raise Unsupported('LAT=2 cell without 6 or 8 planes')
        sides = planes[:6]
        axis = np.cross(sides[0][0], sides[2][0])
        axis = axis / np.linalg.norm(axis)
        rows = [sides[0][0], sides[2][0], sides[4][0], axis]
        rhs = [(sides[0][1] - sides[1][1]) / 2, (sides[2][1] - sides[3][1]) / 2,
               (sides[4][1] - sides[5][1]) / 2, 0.0]
        if len(planes) == 8:
            # the end planes need not be perpendicular to the prism axis
            (n_t, c_t), (n_b, c_b) = planes[6], planes[7]
            if abs(n_t @ n_b + 1.0) > 1e-9 or abs(n_t @ axis) < 1e-6:
                raise Unsupported('end planes of the hexagonal prism')
            rows[3] = n_t
            rhs[3] = (c_t - c_b) / 2
        origin = np.linalg.lstsq(np.array(rows), np.array(rhs), rcond=None)[0]
        # vertices: intersections of two side lines inside all six strips
        rel = [(nrm, c - nrm @ origin) for nrm, c in sides]
        verts = []
        for i in range(6):
            for j in range(i + 1, 6):
                n_i, c_i = rel[i]
                n_j, c_j = rel[j]
                if abs(abs(n_i @ n_j) - 1.0) < 1e-9:
                    continue
                mat = np.array([n_i, n_j, axis])
                pnt = np.linalg.solve(mat, np.array([c_i, c_j, 0.0]))
                if all(nrm @ pnt <= c + 1e-9 for nrm, c in rel):
                    verts.append((pnt, {i, j}))
        if len(verts) != 6:
            raise Unsupported(f'hexagon with {len(verts)} vertices')
        e_1 = verts[0][0] / np.linalg.norm(verts[0][0])
        e_2 = np.cross(axis, e_1)
        verts.sort(key=lambda v: math.atan2(v[0] @ e_2, v[0] @ e_1))
        hexv = [v[0] for v in verts]

        def across(side):
            for k in range(6):
                if side in verts[k][1] and side in verts[(k + 1) % 6][1]:
                    return hexv[k] + hexv[(k + 1) % 6]
            raise Unsupported('side without two vertices')
        vecs = [across(0), across(2)]
        if len(planes) == 8:
            # a3 along the axis, across the seventh-listed plane; a1 and a2
            # parallel to the end planes, so that neighbours share whole faces
            (n_t, c_t), (_n_b, c_b) = planes[6], planes[7]
            vecs = [v - axis * ((v @ n_t) / (axis @ n_t)) for v in vecs]
            vecs.append(axis * ((c_t + c_b) / (axis @ n_t)))
        return M.LatticeTruth(2, origin, vecs, hexagon=hexv, axis=axis)
    raise Unsupported(f'LAT={cel.lat}')


# --------------------------------------------------------------------------
def read_deck(text, cli=()):
    title, ccards, scards, dcards = cards_of(text)
    deck = M.Deck(title.strip() or 'read deck')
    deck.rounded_matrices = False
    deck.cells = read_cells(ccards)
    deck.surfs = read_surfaces(scards)
    read_data(dcards, deck)
    deck.cli = list(cli)
    sids = {s.id for s in deck.surfs}
    cids = {c.id for c in deck.cells}
    tids = {t.id for t in deck.trs}
    for sur in deck.surfs:
        if sur.tr is not None and sur.tr not in tids:
            raise Unsupported(f'surface {sur.id} uses undefined TR{sur.tr}')
    for cel in deck.cells:
        for leaf in M.expr_leaves(cel.geom):
            if leaf[1] not in sids and not (
                    leaf[1] >= 1000 and leaf[1] // 1000 in cids
                    and leaf[1] % 1000 in sids):
                raise Unsupported(f'cell {cel.id} uses undefined surface '
                                  f'{leaf[1]}')
        for cref in M.expr_cellrefs(cel.geom):
            if cref not in cids:
                raise Unsupported(f'cell {cel.id} complements undefined cell')
            if deck.cell(cref).lat:
                # MCNP has no meaning for this (the lattice already covers
                # its universe); the converter writes an empty cell
                raise Unsupported('complement of a lattice cell')
        for spec in (cel.trcl, cel.fill.tr if cel.fill else None):
            if spec is not None and spec.number is not None and \
                    spec.number not in tids:
                raise Unsupported('undefined transformation number')
        if cel.imp is None and not deck.imp_cards:
            raise Unsupported(f'cell {cel.id} has no importance')
    # lattice ranges given on the command line
    args = list(cli)
    for k, arg in enumerate(args[:-1]):
        if arg == '--lattice':
            parts = args[k + 1].split(',')
            cel = deck.cell(int(parts[0]))
            ranges = [tuple(int(v) for v in p.split(':')) for p in parts[1:]]
            if cel.fill is None or cel.fill.array is not None:
                raise Unsupported('--lattice on a cell with a FILL array')
            cel.fill.ranges = ranges + [(0, 0)] * (3 - len(ranges))
    refe = M.Reference(deck)
    for cel in deck.cells:
        if cel.lat:
            if cel.fill is None or cel.fill.ranges is None:
                raise Unsupported('lattice without ranges')
            cel.lat_info = lattice_truth(refe, cel)
            ndim = len(cel.lat_info.vectors)
            for low, high in cel.fill.ranges[ndim:]:
                if (low, high) != (0, 0):
                    raise Unsupported('ranges in a direction the lattice '
                                      'does not have')
    return deck
