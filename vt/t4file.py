'''Independent reader and structural validator of the TRIPOLI-4 text written
by the converter (DESIGN §2.3, C08).'''
import math
import re

SURF_ARITY = {
    'PLANEX': 1, 'PLANEY': 1, 'PLANEZ': 1, 'PLANE': 4, 'SPHERE': 4,
    'CYLX': 3, 'CYLY': 3, 'CYLZ': 3, 'CYL': 7,
    'CONEX': 4, 'CONEY': 4, 'CONEZ': 4, 'CONE': 7,
    'QUAD': 10, 'TORUSX': 6, 'TORUSY': 6, 'TORUSZ': 6,
}

_INT_RE = re.compile(r'^[+-]?\d+$')


class T4Error(Exception):
    '''The file cannot even be tokenised into blocks.'''


class Surf:
    __slots__ = ('id', 'type', 'params', 'tr', 'comment', 'raw')

    def __init__(self, id_, type_, params, tr, comment, raw):
        self.id = id_
        self.type = type_
        self.params = params
        self.tr = tr
        self.comment = comment
        self.raw = raw


class Volu:
    __slots__ = ('id', 'plus', 'minus', 'op', 'fictive', 'comment', 'chain',
                 'raw', 'decl')

    def __init__(self):
        self.id = None
        self.plus = []
        self.minus = []
        self.op = None
        self.fictive = False
        self.comment = ''
        self.chain = None
        self.raw = ''
        self.decl = []     # (keyword, declared count, number of items found)


class T4File:
    def __init__(self):
        self.header = []
        self.surfs = {}
        self.surf_order = []
        self.transforms = {}
        self.volus = {}
        self.volu_order = []
        self.compositions = []      # dicts
        self.compo_declared = None
        self.geomcomp = []          # (name, declared, [ids])
        self.bc = []                # (kind, surf id token)
        self.bc_declared = None
        self.has_compo = False
        self.has_geomcomp = False
        self.has_bc = False
        self.problems = []          # (rule, message)

    def problem(self, rule, msg):
        self.problems.append((rule, msg))


def _tofloat(tok):
    try:
        return float(tok)
    except ValueError:
        return None


_CHAIN_RE = re.compile(r'\(\s*(-?\d+)\s*,\s*(-?\d+)\s*\)')


class _Tokens:
    """The file as a stream of blank-separated tokens: TRIPOLI-4 input is
    free-format, so no rule may depend on how statements are laid out on
    lines.  ``//`` comments are removed and kept per line; a statement's
    comment is what follows it on the lines it spans."""

    def __init__(self, lines, first):
        self.toks = []
        self.line = []
        self.comments = {}
        self.lines = lines
        for num in range(first, len(lines)):
            code, sep, comment = lines[num].partition('//')
            if sep:
                self.comments[num] = comment.strip()
            for tok in code.split():
                self.toks.append(tok)
                self.line.append(num)
        self.pos = 0

    def peek(self):
        return self.toks[self.pos] if self.pos < len(self.toks) else None

    def next(self):
        tok = self.peek()
        self.pos += 1
        return tok

    def done(self):
        return self.pos >= len(self.toks)

    def until(self, stops):
        out = []
        while not self.done() and self.peek() not in stops:
            out.append(self.next())
        return out

    def rest_of_line(self):
        """Skip to the first token of the next line."""
        if self.pos == 0:
            return
        cur = self.line[self.pos - 1]
        while not self.done() and self.line[self.pos] == cur:
            self.pos += 1

    def span(self, first, last):
        """(raw text, comment) of the statement made of tokens
        first..last-1."""
        if first >= len(self.toks):
            return '', ''
        low = self.line[first]
        high = self.line[max(first, min(last, len(self.toks)) - 1)]
        raw = '\n'.join(self.lines[low:high + 1])
        comment = ' '.join(self.comments[n] for n in range(low, high + 1)
                           if self.comments.get(n))
        return raw, comment


_GEOM_KW = ('TITLE', 'HASH_TABLE', 'TRANSFORM', 'SURF', 'VOLU', 'ENDG')


def parse(text):
    """Parse the text of a written file.  Never raises on rule violations:
    they are recorded in ``.problems`` with the name of the broken rule."""
    t4 = T4File()
    lines = text.split('\n')
    i = 0
    while i < len(lines) and lines[i].startswith('//'):
        t4.header.append(lines[i])
        i += 1
    ts = _Tokens(lines, i)
    section = 'pre'
    while not ts.done():
        first = ts.pos
        head = ts.next()
        if section == 'pre':
            if head == 'GEOMETRY':
                section = 'geom'
            elif head == 'LANG':
                ts.next()
            else:
                t4.problem('layout', f'unexpected token before GEOMETRY: '
                           f'{head!r}')
            continue
        if section == 'geom':
            if head == 'TITLE':
                ts.rest_of_line()       # free text up to the end of the line
            elif head == 'HASH_TABLE':
                pass
            elif head == 'TRANSFORM':
                toks = [head] + ts.until(_GEOM_KW)
                raw, _ = ts.span(first, ts.pos)
                _parse_transform(t4, toks, raw)
            elif head == 'SURF':
                toks = [head] + _surf_tokens(ts)
                raw, comment = ts.span(first, ts.pos)
                _parse_surf(t4, toks, comment, raw)
            elif head == 'VOLU':
                toks = [head] + ts.until(('ENDV',) + _GEOM_KW)
                if ts.peek() == 'ENDV':
                    toks.append(ts.next())
                raw, comment = ts.span(first, ts.pos)
                _parse_volu(t4, toks, comment, raw)
            elif head == 'ENDG':
                section = 'post'
            else:
                t4.problem('layout', f'unexpected token in GEOMETRY: {head!r}'
                           f' (line {lines[ts.line[first]]!r})')
            continue
        if head == 'COMPOSITION':
            t4.has_compo = True
            _parse_composition(t4, ts)
        elif head == 'GEOMCOMP':
            t4.has_geomcomp = True
            _parse_geomcomp(t4, ts)
        elif head == 'BOUNDARY_CONDITION':
            t4.has_bc = True
            _parse_bc(t4, ts)
        else:
            t4.problem('layout', f'unexpected token after ENDG: {head!r}')
    if section != 'post':
        t4.problem('layout', 'GEOMETRY block not closed by ENDG')
    return t4


def _surf_tokens(ts):
    """Tokens of one SURF statement after the keyword: id [TRANSFORM id] type
    params..., the parameters running up to the next statement keyword."""
    toks = [ts.next()]
    if ts.peek() == 'TRANSFORM':
        toks.append(ts.next())
        toks.append(ts.next())
    toks = [t for t in toks if t is not None]
    toks.extend(ts.until(_GEOM_KW))
    return toks


def _parse_transform(t4, toks, raw):
    if len(toks) != 15 or toks[2] != 'MATRIX' or not _INT_RE.match(toks[1]):
        t4.problem('transform-syntax', raw)
        return
    vals = [_tofloat(t) for t in toks[3:]]
    if any(v is None or not math.isfinite(v) for v in vals):
        t4.problem('numeric-field', f'non-finite or unparsable: {raw!r}')
        return
    tid = int(toks[1])
    if tid in t4.transforms:
        t4.problem('unique-transform', f'TRANSFORM {tid} defined twice')
    t4.transforms[tid] = vals


def _parse_surf(t4, toks, comment, raw):
    if len(toks) < 3 or not _INT_RE.match(toks[1]):
        t4.problem('surf-syntax', raw)
        return
    sid = int(toks[1])
    k = 2
    tr = None
    if toks[k] == 'TRANSFORM':
        if len(toks) < 5 or not _INT_RE.match(toks[3]):
            t4.problem('surf-syntax', raw)
            return
        tr = int(toks[3])
        k = 4
    typ = toks[k]
    ptoks = toks[k + 1:]
    if typ not in SURF_ARITY:
        t4.problem('surf-type', f'unknown surface type in {raw!r}')
        return
    if len(ptoks) != SURF_ARITY[typ]:
        t4.problem('surf-arity', f'{typ} expects {SURF_ARITY[typ]} parameters:'
                   f' {raw!r}')
        return
    params = [_tofloat(t) for t in ptoks]
    if any(v is None or not math.isfinite(v) for v in params):
        t4.problem('numeric-field', f'non-finite or unparsable: {raw!r}')
        return
    if sid in t4.surfs:
        t4.problem('unique-surf', f'SURF {sid} defined twice')
    if tr is not None and tr not in t4.transforms:
        t4.problem('defined-transform', f'SURF {sid} uses undefined TRANSFORM '
                   f'{tr}')
    t4.surfs[sid] = Surf(sid, typ, params, tr, comment, raw)
    t4.surf_order.append(sid)


def _parse_volu(t4, toks, comment, raw):
    vol = Volu()
    vol.raw = raw
    vol.comment = comment
    if len(toks) < 4 or not _INT_RE.match(toks[1]) or toks[2] != 'EQUA':
        t4.problem('volu-syntax', raw)
        return
    vol.id = int(toks[1])
    k = 3
    ended = False
    seen_kw = set()
    while k < len(toks):
        tok = toks[k]
        if tok in ('PLUS', 'MINUS', 'UNION', 'INTE'):
            if tok in seen_kw:
                t4.problem('volu-syntax', f'{tok} twice in {raw!r}')
            seen_kw.add(tok)
            if k + 1 >= len(toks) or not _INT_RE.match(toks[k + 1]):
                t4.problem('volu-syntax', raw)
                return
            declared = int(toks[k + 1])
            k += 2
            items = []
            while k < len(toks) and toks[k] not in ('PLUS', 'MINUS', 'UNION',
                                                    'INTE', 'FICTIVE', 'ENDV'):
                items.append(toks[k])
                k += 1
            vol.decl.append((tok, declared, len(items)))
            if declared != len(items):
                t4.problem('declared-count', f'{tok} declares {declared} but '
                           f'{len(items)} items follow in VOLU {vol.id}')
            bad = [it for it in items if not _INT_RE.match(it)]
            if bad:
                t4.problem('integer-reference', f'non-integer reference(s) '
                           f'{bad} after {tok} in VOLU {vol.id}')
                items = [it for it in items if _INT_RE.match(it)]
            ids = [int(it) for it in items]
            if tok == 'PLUS':
                vol.plus = ids
            elif tok == 'MINUS':
                vol.minus = ids
            else:
                if vol.op is not None:
                    t4.problem('volu-syntax', f'two operators in {raw!r}')
                vol.op = (tok, ids)
        elif tok == 'FICTIVE':
            vol.fictive = True
            k += 1
        elif tok == 'ENDV':
            ended = True
            k += 1
            break
        else:
            t4.problem('volu-syntax', f'unexpected token {tok!r} in {raw!r}')
            return
    if not ended:
        t4.problem('volu-syntax', f'missing ENDV: {raw!r}')
    if comment:
        pairs = _CHAIN_RE.findall(comment)
        if pairs:
            vol.chain = [(int(a), int(b)) for a, b in pairs]
    if vol.id in t4.volus:
        t4.problem('unique-volu', f'VOLU {vol.id} defined twice')
    t4.volus[vol.id] = vol
    t4.volu_order.append(vol.id)


_COMPO_KW = ('POINT_WISE', 'DENSITY', 'END_COMPOSITION')


def _parse_composition(t4, ts):
    tok = ts.peek()
    if tok is not None and _INT_RE.match(tok):
        t4.compo_declared = int(ts.next())
    else:
        t4.problem('compo-syntax', f'COMPOSITION count: {tok!r}')
    while not ts.done():
        first = ts.pos
        head = ts.next()
        if head == 'END_COMPOSITION':
            return
        if head not in ('POINT_WISE', 'DENSITY'):
            t4.problem('compo-syntax', f'unexpected token {head!r}')
            ts.until(_COMPO_KW)
            continue
        temp = ts.next()
        name = ts.next()
        density = None
        nb_atom = False
        if head == 'DENSITY':
            density = ts.next()
            if ts.peek() == 'NB_ATOM':
                nb_atom = True
                ts.next()
        count = ts.next()
        body = ts.until(_COMPO_KW)
        raw, _ = ts.span(first, ts.pos)
        if (temp is None or name is None or count is None
                or not _INT_RE.match(count)
                or (head == 'DENSITY' and density is None)):
            t4.problem('compo-syntax', raw)
            continue
        comp = {'kind': head, 'temp': temp, 'name': name, 'n': int(count),
                'density': density, 'nb_atom': nb_atom, 'items': []}
        if density is not None:
            val = _tofloat(density)
            if val is None or not math.isfinite(val):
                t4.problem('numeric-field', f'density in {raw!r}')
        if len(body) % 2:
            t4.problem('compo-syntax', f'nuclide list of {name}: odd number '
                       f'of tokens in {raw!r}')
        for k in range(0, len(body) - 1, 2):
            val = _tofloat(body[k + 1])
            if val is None or not math.isfinite(val):
                t4.problem('numeric-field', f'nuclide amount {body[k]} '
                           f'{body[k + 1]} in {name}')
            comp['items'].append((body[k], body[k + 1]))
        if comp['n'] != len(comp['items']):
            t4.problem('declared-count', f"composition {comp['name']} declares"
                       f" {comp['n']} nuclides, {len(comp['items'])} follow")
        t4.compositions.append(comp)
    t4.problem('layout', 'COMPOSITION not closed')


def _parse_geomcomp(t4, ts):
    while not ts.done():
        name = ts.next()
        if name == 'END_GEOMCOMP':
            return
        count = ts.peek()
        if _INT_RE.match(name) or count is None or not _INT_RE.match(count):
            t4.problem('geomcomp-syntax', f'{name} {count}')
            continue
        ts.next()
        items = []
        # volume numbers run up to the next composition name
        while not ts.done() and ts.peek() != 'END_GEOMCOMP' and (
                _tofloat(ts.peek()) is not None):
            items.append(ts.next())
        bad = [t for t in items if not _INT_RE.match(t)]
        if bad:
            t4.problem('integer-reference', f'GEOMCOMP {name}: {bad}')
        ids = [int(t) for t in items if _INT_RE.match(t)]
        if int(count) != len(items):
            t4.problem('declared-count', f'GEOMCOMP {name} declares '
                       f'{count} volumes, {len(items)} follow')
        t4.geomcomp.append((name, int(count), ids))
    t4.problem('layout', 'GEOMCOMP not closed')


def _parse_bc(t4, ts):
    tok = ts.peek()
    if tok is not None and _INT_RE.match(tok):
        t4.bc_declared = int(ts.next())
    else:
        t4.problem('bc-syntax', f'BOUNDARY_CONDITION count: {tok!r}')
    while not ts.done():
        head = ts.next()
        if head == 'END_BOUNDARY_CONDITION':
            return
        if head != 'ALL_COMPLETE':
            t4.problem('bc-syntax', f'unexpected token {head!r}')
            continue
        kind = ts.next()
        sid = ts.next()
        if kind is None or sid is None:
            t4.problem('bc-syntax', 'truncated ALL_COMPLETE entry')
            continue
        t4.bc.append((kind, sid))
    t4.problem('layout', 'BOUNDARY_CONDITION not closed')


RULES = ('layout', 'unique-surf', 'unique-volu', 'unique-transform',
         'defined-transform', 'surf-syntax', 'surf-type', 'surf-arity',
         'volu-syntax', 'transform-syntax', 'numeric-field', 'declared-count',
         'integer-reference', 'defined-surf', 'defined-volu', 'both-sides',
         'compo-syntax', 'geomcomp-syntax', 'bc-syntax', 'compo-count',
         'unique-composition', 'geomcomp-once', 'geomcomp-nonfictive',
         'geomcomp-defined-volu', 'geomcomp-composition', 'bc-count',
         'bc-defined-surf', 'bc-kind')


def validate(t4, counters=None):
    '''Run the cross-reference rules of C08 on a parsed file.  Returns the
    list of (rule, message), including the problems found while parsing.
    `counters`, if given, is a dict updated with the number of individual
    checks performed per rule.'''
    probs = list(t4.problems)

    def count(rule, n=1):
        if counters is not None:
            counters[rule] = counters.get(rule, 0) + n

    for vol in t4.volus.values():
        for sid in vol.plus + vol.minus:
            count('defined-surf')
            if sid not in t4.surfs:
                probs.append(('defined-surf', f'VOLU {vol.id} references '
                              f'undefined SURF {sid}'))
        if vol.op is not None:
            for vid in vol.op[1]:
                count('defined-volu')
                if vid not in t4.volus:
                    probs.append(('defined-volu', f'VOLU {vol.id} references '
                                  f'undefined VOLU {vid} in {vol.op[0]}'))
        count('both-sides')
        both = set(vol.plus) & set(vol.minus)
        if both:
            probs.append(('both-sides', f'VOLU {vol.id} lists SURF '
                          f'{sorted(both)} on both sides'))
        for kw, ids in (('PLUS', vol.plus), ('MINUS', vol.minus)):
            if len(set(ids)) != len(ids):
                probs.append(('both-sides', f'VOLU {vol.id} repeats a surface '
                              f'in {kw}'))
        for _ in vol.decl:
            count('declared-count')
    count('unique-surf', len(t4.surf_order))
    count('unique-volu', len(t4.volu_order))
    count('numeric-field', sum(len(s.params) for s in t4.surfs.values())
          + 12 * len(t4.transforms))

    names = [c['name'] for c in t4.compositions]
    if t4.has_compo:
        count('compo-count')
        if t4.compo_declared != len(t4.compositions):
            probs.append(('compo-count', f'COMPOSITION declares '
                          f'{t4.compo_declared}, {len(t4.compositions)} '
                          'written'))
        if len(set(names)) != len(names):
            dup = sorted(n for n in set(names) if names.count(n) > 1)
            probs.append(('unique-composition', f'composition(s) {dup} '
                          'written more than once'))
    if t4.has_geomcomp:
        assigned = {}
        for name, _declared, ids in t4.geomcomp:
            count('declared-count')
            for vid in ids:
                assigned.setdefault(vid, []).append(name)
            if t4.has_compo:
                count('geomcomp-composition')
                if name not in names:
                    probs.append(('geomcomp-composition', f'GEOMCOMP names '
                                  f'composition {name} which is not written'))
        gnames = [g[0] for g in t4.geomcomp]
        if len(set(gnames)) != len(gnames):
            probs.append(('geomcomp-once', 'a composition appears on two '
                          'GEOMCOMP lines'))
        for vid, where in assigned.items():
            count('geomcomp-defined-volu')
            if vid not in t4.volus:
                probs.append(('geomcomp-defined-volu', f'GEOMCOMP lists '
                              f'undefined VOLU {vid}'))
            elif t4.volus[vid].fictive:
                probs.append(('geomcomp-nonfictive', f'GEOMCOMP lists FICTIVE '
                              f'VOLU {vid}'))
            if len(where) > 1:
                probs.append(('geomcomp-once', f'VOLU {vid} assigned to '
                              f'{where}'))
        for vol in t4.volus.values():
            if not vol.fictive:
                count('geomcomp-once')
                if vol.id not in assigned:
                    probs.append(('geomcomp-once', f'non-virtual VOLU {vol.id}'
                                  ' has no composition'))
    if t4.has_bc:
        count('bc-count')
        if t4.bc_declared != len(t4.bc):
            probs.append(('bc-count', f'BOUNDARY_CONDITION declares '
                          f'{t4.bc_declared}, {len(t4.bc)} written'))
        for kind, tok in t4.bc:
            count('bc-defined-surf')
            if kind not in ('REFLECTION', 'COSINUS'):
                probs.append(('bc-kind', f'unknown kind {kind}'))
            if not _INT_RE.match(tok) or int(tok) not in t4.surfs:
                probs.append(('bc-defined-surf', f'boundary condition on SURF '
                              f'{tok} which is not written'))
    return probs
