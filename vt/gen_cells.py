'''Generators of universe-free decks with Boolean cell expressions (C01) and
helpers shared with other properties.'''
from . import model as M
from .gen_surf import elementary, macrobody, rnd
from .decks import WORLD_SURF

FAMILIES = ['inter', 'union-first', 'union-last', 'union-none', 'nested',
            'compl-expr', 'compl-cell', 'partition', 'repeat',
            'contradiction', 'multi', 'shared', 'imp0-middle',
            'compl-cell-in-expr', 'union-compl-first', 'compl-forward',
            'compl-trcl', 'mixed']

SIMPLE_KINDS = [('px', 'any'), ('py', 'any'), ('pz', 'any'), ('p', 'general'),
                ('s', 'any'), ('so', 'any'), ('c/z', 'any'), ('cx', 'any'),
                ('c/y', 'any'), ('sq', 'ellipsoid'), ('sz', 'any'),
                ('gq', 'ellipsoid')]
MULTI_KINDS = [('k/z', 'plus'), ('kx', 'minus'), ('rpp', 'any'),
               ('rcc', 'aligned'), ('box', 'rotated'), ('sph', 'any'),
               ('k/y', 'two'), ('tz', 'circular')]


def make_surfaces(rng, count, multi=0):
    surfs = []
    for i in range(count):
        if i < multi:
            kind, fam = rng.choice(MULTI_KINDS)
        else:
            kind, fam = rng.choice(SIMPLE_KINDS)
        if kind in ('rpp', 'rcc', 'box', 'sph'):
            par = macrobody(rng, kind, fam)
        else:
            par = elementary(rng, kind, fam)
        surfs.append(M.Surf(i + 1, kind, par))
    rng.shuffle(surfs)
    for num, sur in enumerate(surfs, start=1):
        sur.id = num
    return surfs


def lit(rng, sids):
    sid = rng.choice(sids)
    return M.S(sid if rng.random() < 0.5 else -sid)


def inter(rng, sids, nmin=2, nmax=4):
    count = rng.randint(nmin, nmax)
    chosen = rng.sample(sids, min(count, len(sids)))
    return M.AND(*[M.S(s if rng.random() < 0.5 else -s) for s in chosen])


def rand_expr(rng, sids, depth, allow_not=False, cells=()):
    '''Random expression tree of the given depth.'''
    if depth <= 0 or rng.random() < 0.25:
        if cells and rng.random() < 0.15:
            return M.CELLC(rng.choice(cells))
        return lit(rng, sids)
    roll = rng.random()
    if allow_not and roll < 0.15:
        return M.NOT(rand_expr(rng, sids, depth - 1, allow_not, ()))
    op = M.AND if roll < 0.55 else M.OR
    count = rng.randint(2, 3)
    return op(*[rand_expr(rng, sids, depth - 1, allow_not, cells)
                for _ in range(count)])


def build(rng, family):
    '''Return a Deck of the given family.'''
    if family == 'mixed':
        family = rng.choice([f for f in FAMILIES if f != 'mixed'])
        mixed = True
    else:
        mixed = False
    nsurf = rng.randint(3, 12)
    multi = rng.randint(1, 3) if family == 'multi' else \
        (1 if rng.random() < 0.2 else 0)
    surfs = make_surfaces(rng, nsurf, multi)
    sids = [s.id for s in surfs]
    deck = M.Deck(f'C01 {family}')
    deck.world = 12.0
    deck.surfs = surfs + [M.Surf(WORLD_SURF, 'so', [12.0])]
    exprs = []
    ncell = rng.randint(3, 9)
    imps = {}
    if family == 'inter':
        exprs = [inter(rng, sids, 1, 5) for _ in range(ncell)]
    elif family in ('union-first', 'union-last', 'union-none'):
        for _ in range(ncell):
            big = inter(rng, sids, 3, 4)
            small = [inter(rng, sids, 1, 2) if rng.random() < 0.6 else
                     M.OR(lit(rng, sids), inter(rng, sids, 2, 2))
                     for _ in range(rng.randint(1, 3))]
            if family == 'union-first':
                exprs.append(M.OR(big, *small))
            elif family == 'union-last':
                exprs.append(M.OR(*small, big))
            else:
                # no pure intersection among the children: unions of unions
                # through intersections with nested unions
                kids = [M.AND(lit(rng, sids), M.OR(lit(rng, sids),
                                                   lit(rng, sids)))
                        for _ in range(rng.randint(2, 3))]
                exprs.append(M.OR(*kids))
    elif family == 'nested':
        exprs = [rand_expr(rng, sids, 4) for _ in range(ncell)]
    elif family == 'compl-expr':
        for _ in range(ncell):
            inner = M.OR(inter(rng, sids, 1, 3), inter(rng, sids, 1, 2))
            if rng.random() < 0.5:
                inner = rand_expr(rng, sids, 3, allow_not=True)
            exprs.append(M.AND(lit(rng, sids), M.NOT(inner))
                         if rng.random() < 0.6 else M.NOT(inner))
    elif family == 'compl-cell':
        for idx in range(ncell):
            base = rand_expr(rng, sids, 2)
            if idx:
                refs = rng.sample(range(1, idx + 1), min(idx, rng.randint(1, 2)))
                base = M.AND(base, *[M.CELLC(r) for r in refs])
                if rng.random() < 0.3:
                    base = M.OR(base, M.AND(lit(rng, sids),
                                            M.CELLC(rng.choice(refs))))
            exprs.append(base)
    elif family in ('compl-forward', 'compl-trcl'):
        # #n in any direction of the cell block: a cell may complement cells
        # written after it (no cycles: references follow a hidden order).
        # In compl-trcl some of the complemented cells carry a TRCL.
        rank = list(range(1, ncell + 1))
        rng.shuffle(rank)              # rank[i-1] = position in hidden order
        for idx in range(1, ncell + 1):
            base = rand_expr(rng, sids, 2)
            lower = [j for j in range(1, ncell + 1)
                     if rank[j - 1] < rank[idx - 1]]
            if lower:
                refs = rng.sample(lower, min(len(lower), rng.randint(1, 2)))
                base = M.AND(base, *[M.CELLC(r) for r in refs])
                if rng.random() < 0.3:
                    base = M.OR(base, M.AND(lit(rng, sids),
                                            M.CELLC(rng.choice(refs))))
            exprs.append(base)
    elif family == 'compl-cell-in-expr':
        # #( ... #n ... ): the complement of an expression that itself
        # contains the complement of a cell
        for idx in range(ncell):
            base = rand_expr(rng, sids, 2)
            if idx:
                ref_ = rng.randint(1, idx)
                base = rng.choice([
                    M.AND(lit(rng, sids), M.NOT(M.OR(base, M.CELLC(ref_)))),
                    M.NOT(M.AND(lit(rng, sids), M.CELLC(ref_))),
                    M.NOT(M.NOT(M.AND(base, M.CELLC(ref_))))])
            exprs.append(base)
    elif family == 'union-compl-first':
        # a complement operator directly after ':' or as first operand
        for idx in range(ncell):
            base = rand_expr(rng, sids, 2)
            if idx:
                ref_ = rng.randint(1, idx)
                base = rng.choice([
                    M.OR(lit(rng, sids), M.CELLC(ref_)),
                    M.OR(M.CELLC(ref_), lit(rng, sids)),
                    M.OR(lit(rng, sids), M.NOT(base)),
                    M.OR(M.NOT(base), M.AND(M.CELLC(ref_), lit(rng, sids)))])
            exprs.append(base)
    elif family == 'partition':
        for idx in range(ncell):
            base = rand_expr(rng, sids, rng.randint(1, 3))
            exprs.append(M.AND(base, *[M.CELLC(r) for r in range(1, idx + 1)]))
        exprs.append(M.AND(*[M.CELLC(r) for r in range(1, ncell + 1)]))
    elif family == 'repeat':
        for _ in range(ncell):
            a, b = lit(rng, sids), lit(rng, sids)
            exprs.append(rng.choice([
                M.AND(a, b, a), M.AND(a, a), M.OR(M.AND(a, b, a, b), b),
                M.AND(a, M.OR(b, b), a)]))
    elif family == 'contradiction':
        for _ in range(ncell):
            sid = rng.choice(sids)
            pos, neg = M.S(sid), M.S(-sid)
            other = lit(rng, sids)
            other2 = lit(rng, sids)
            exprs.append(rng.choice([
                M.AND(pos, other, neg),                       # empty cell
                M.OR(M.AND(pos, neg), M.AND(pos, other, neg)),  # empty union
                M.OR(M.AND(pos, neg, other), other2),         # one branch
                M.OR(other2, M.AND(other, pos, neg)),
                M.AND(other, M.OR(M.AND(pos, neg), other2)),
                M.AND(other, M.OR(M.AND(pos, neg), M.AND(neg, other2, pos))),
            ]))
        # a deck whose every cell is empty has no expected output at all:
        # keep one plain cell
        exprs.append(lit(rng, sids))
    elif family == 'multi':
        msids = [s.id for s in surfs if s.kind in
                 ('k/z', 'kx', 'k/y', 'rpp', 'rcc', 'box', 'sph', 'tz')]
        for _ in range(ncell):
            m = rng.choice(msids)
            ml = M.S(m if rng.random() < 0.5 else -m)
            exprs.append(rng.choice([
                M.OR(ml, inter(rng, sids, 1, 2)),
                M.AND(ml, lit(rng, sids)),
                M.OR(M.AND(ml, lit(rng, sids)), lit(rng, sids)),
                M.NOT(M.OR(ml, lit(rng, sids))),
                ml]))
    elif family == 'shared':
        core = rng.sample(sids, min(3, len(sids)))
        for _ in range(ncell + 3):
            signs = [M.S(s if rng.random() < 0.5 else -s) for s in core]
            exprs.append(M.AND(*signs, lit(rng, sids)))
    elif family == 'imp0-middle':
        exprs = [rand_expr(rng, sids, 2) for _ in range(ncell + 2)]
        zeros = rng.sample(range(1, len(exprs) + 1), rng.randint(1, 3))
        for z in zeros:
            imps[z] = '0'
        # a later cell refers to a zero-importance cell through #n
        exprs.append(M.AND(lit(rng, sids), M.CELLC(zeros[0])))
    for num, expr in enumerate(exprs, start=1):
        mat = rng.randint(1, 3)
        deck.cells.append(M.Cell(num, mat=mat,
                                 rho=f'-{mat}.{rng.randint(1, 9)}',
                                 geom=M.AND(expr, M.S(-WORLD_SURF)),
                                 imp={'n': imps.get(num, '1')}))
    if family == 'compl-trcl':
        from .gen_surf import motion_of_class, tr_card, tr_spec
        from .mcnp_ref import Motion
        refd = sorted({r for c in deck.cells for r in M.expr_cellrefs(c.geom)})
        movers = rng.sample(refd, min(len(refd), rng.randint(1, 3)))
        if len(deck.cells) > 1 and rng.random() < 0.5:
            movers.append(rng.choice([c.id for c in deck.cells]))
        for k, cid in enumerate(sorted(set(movers)), start=1):
            cls = rng.choice(['translation', 'generic', 'quarter', 'flip-z'])
            mot = Motion([rnd(rng, -2, 2) for _ in range(3)],
                         motion_of_class(rng, cls).b)
            if rng.random() < 0.4:
                deck.trs.append(tr_card(rng, k, mot,
                                        rng.choice(['12', 'star', '13'])))
                spec = M.TrSpec(number=k)
            else:
                spec = tr_spec(rng, mot, 'inline3' if cls == 'translation'
                               else rng.choice(['inline12', 'star']))
            deck.cell(cid).trcl = spec
        deck.tags.add('compl.trcl')
    for mat in (1, 2, 3):
        deck.mats.append(M.Material(mat, [('13027', '1')]))
    deck.cells.append(M.Cell(900, mat=0, geom=M.S(WORLD_SURF), imp={'n': '0'}))
    deck.tags.add(f'c01.{family}')
    if rng.random() < 0.25:
        # the order of the cards inside a block is free in MCNP
        rng.shuffle(deck.surfs)
        deck.tags.add('cards.unordered')
    if rng.random() < 0.25:
        rng.shuffle(deck.cells)
        deck.tags.add('cells.unordered')
    if rng.random() < 0.3:
        M.shuffle_options(deck, rng)
    if rng.random() < 0.3:
        M.vary_largest_surface(deck, rng)
    if rng.random() < 0.15:
        M.add_unrelated_cards(deck, rng)
    roll = rng.random()
    if roll < 0.3:
        # importances other than 1: any positive value keeps the cell
        for cel in deck.cells:
            if float(cel.imp['n']) != 0:
                cel.imp = {'n': rng.choice(['2', '0.5', '0.25', '1e-3', '4',
                                            '.1'])}
        deck.tags.add('imp.fractional')
        if roll < 0.15:
            # ... given on an IMP data card, by position in the cell block
            deck.imp_cards.append(('n', [c.imp['n'] for c in deck.cells]))
            for cel in deck.cells:
                cel.imp = None
            deck.tags.add('imp.data-card')
    if mixed:
        deck.tags.add('c01.mixed')
    if has_cellc_in_not(deck):
        deck.tags.add('compl.cell-in-expr')
    return deck


def has_cellc_in_not(deck):
    def walk(expr, inside):
        if expr[0] == '^':
            return inside
        if expr[0] == 's':
            return False
        if expr[0] == '#':
            return walk(expr[1], True)
        if expr[0] == 'g':
            return walk(expr[1], inside)
        return any(walk(sub, inside) for sub in expr[1:])
    return any(walk(c.geom, False) for c in deck.cells)


def structure_of(deck):
    '''A string identifying the shape of the deck (kinds and expression
    skeletons), used to count distinct cases.'''
    def skel(expr):
        if expr[0] == 's':
            return f"{'+' if expr[2] > 0 else '-'}{expr[1]}" + \
                (f'.{expr[3]}' if expr[3] else '')
        if expr[0] == '^':
            return f'^{expr[1]}'
        if expr[0] == '#':
            return '#(' + skel(expr[1]) + ')'
        if expr[0] == 'g':
            return '(' + skel(expr[1]) + ')'
        return '(' + expr[0].join(skel(s) for s in expr[1:]) + ')'
    kinds = ','.join(s.kind for s in deck.surfs)
    return kinds + '|' + ';'.join(skel(c.geom) for c in deck.cells)
