'''Runtime-monitoring harness for t4_geom_convert (see /verif/DESIGN.md).'''
