'''Parent process of a check: shard, merge, classify against the known
findings, write evidence and replay files, print the verdict (DESIGN §5).'''
import argparse
import collections
import json
import os
import subprocess
import sys
import tempfile
import time

from . import core

VERIF = core.VERIF
PY = sys.executable


def load_findings():
    path = os.path.join(VERIF, 'known_findings.json')
    with open(path) as fil:
        return json.load(fil)['findings']


def run_shards(pid, seed, tier, jobs, timeout):
    tmpdir = tempfile.mkdtemp(prefix='vt-res-', dir='/dev/shm'
                              if os.path.isdir('/dev/shm') else None)
    procs = []
    env = dict(os.environ)
    env['PYTHONDONTWRITEBYTECODE'] = '1'
    env.setdefault('PYTHONHASHSEED', '0')
    env['PYTHONPATH'] = VERIF + os.pathsep + os.path.join(VERIF, '.deps')
    env['T4GC_VERIF'] = '1'
    for shard in range(jobs):
        out = os.path.join(tmpdir, f'r{shard}.json')
        cmd = [PY, '-m', 'vt.core', pid, str(shard), str(jobs), str(seed),
               tier, out]
        log = open(os.path.join(tmpdir, f'r{shard}.log'), 'w')
        procs.append((subprocess.Popen(cmd, env=env, cwd=VERIF, stdout=log,
                                       stderr=subprocess.STDOUT), out, log))
    results = []
    problems = []
    deadline = time.time() + timeout
    for proc, out, log in procs:
        remaining = max(1.0, deadline - time.time())
        try:
            proc.wait(timeout=remaining)
        except subprocess.TimeoutExpired:
            proc.kill()
            proc.wait()
            problems.append('watchdog: a worker exceeded the wall-clock '
                            f'budget of {timeout}s')
        log.close()
        if os.path.exists(out):
            with open(out) as fil:
                results.append(json.load(fil))
        else:
            with open(log.name) as fil:
                tail = fil.read()[-800:]
            problems.append(f'worker produced no result: {tail}')
    for name in os.listdir(tmpdir):
        os.remove(os.path.join(tmpdir, name))
    os.rmdir(tmpdir)
    return results, problems


def merge(results):
    tot = {'evaluations': 0, 'judged': 0, 'discarded': 0,
           'families': collections.Counter(), 'tags': collections.Counter(),
           'structures': set(), 'samples': [],
           'counters': collections.Counter(), 'reach': collections.Counter(),
           'harness_errors': [], 'skipped': collections.Counter(),
           'rule_checks': collections.Counter(), 'groups': {},
           'monitors': collections.Counter(), 'inconclusive': []}
    for res in results:
        tot['evaluations'] += res['evaluations']
        tot['judged'] += res['judged']
        tot['discarded'] += res['discarded']
        tot['families'].update(res['families'])
        tot['tags'].update(res.get('tags', {}))
        tot['structures'].update(res['structures'])
        tot['samples'].extend(res['samples'])
        tot['counters'].update(res['counters'])
        tot['reach'].update(res['reach'])
        tot['harness_errors'].extend(res['harness_errors'])
        tot['skipped'].update(res['skipped'])
        tot['rule_checks'].update(res['rule_checks'])
        tot['monitors'].update(res.get('monitors', {}))
        if res.get('inconclusive'):
            tot['inconclusive'].append(res['inconclusive'])
        for key, grp in res.get('violation_groups', {}).items():
            cur = tot['groups'].setdefault(key, {'kind': grp['kind'],
                                                 'mech': grp['mech'],
                                                 'count': 0, 'examples': []})
            cur['count'] += grp['count']
            cur['examples'].extend(grp['examples'][:3 - len(cur['examples'])])
    return tot


def main(argv=None):
    parser = argparse.ArgumentParser(prog='check')
    parser.add_argument('prop')
    parser.add_argument('--tier', default=os.environ.get('VERIF_TIER', 'quick'),
                        choices=['quick', 'thorough'])
    parser.add_argument('--seed', type=int,
                        default=int(os.environ.get('VERIF_SEED', '1')))
    parser.add_argument('--jobs', type=int,
                        default=int(os.environ.get('VERIF_JOBS', '0')))
    parser.add_argument('--replay')
    parser.add_argument('--no-evidence', action='store_true')
    args = parser.parse_args(argv)
    pid = args.prop.upper()

    sys.path.insert(0, os.path.join(VERIF, '.deps'))
    if args.replay:
        return replay(pid, args.replay)

    mod = core.load_prop(pid)
    jobs = args.jobs or min(16, os.cpu_count() or 4)
    jobs = min(jobs, getattr(mod, 'MAX_JOBS', jobs))
    timeout = getattr(mod, 'TIMEOUT_S', {'quick': 600, 'thorough': 3600})[args.tier]
    started = time.time()
    results, problems = run_shards(pid, args.seed, args.tier, jobs, timeout)
    tot = merge(results)
    wall = time.time() - started

    findings = [f for f in load_findings() if f['property'] == pid]
    known = {f['key']: f for f in findings if f['status'] == 'known'}

    new_violations = []
    known_seen = collections.Counter()
    for grp in tot['groups'].values():
        if grp['mech'] and grp['mech'] in known:
            known_seen[grp['mech']] += grp['count']
        else:
            new_violations.append(grp)

    # inconclusive conditions
    inconclusive = list(problems) + tot['inconclusive']
    if tot['harness_errors']:
        nerr = len(tot['harness_errors'])
        msg = (f"{nerr} case(s) could not be judged because the harness "
               "itself raised: " + tot['harness_errors'][0]['trace'][-600:])
        if nerr > max(2, 0.02 * (tot['evaluations'] + nerr)):
            inconclusive.append(msg)
        else:
            # a handful of unjudged cases does not invalidate the others;
            # they are reported, never counted as held
            print('WARNING ' + msg)
            tot['skipped']['harness-error'] += nerr
    unreached = []
    vanished = []
    for name in getattr(mod, 'REQUIRED_REACH', []):
        if not any(key.endswith(name) and cnt > 0
                   for key, cnt in tot['reach'].items()):
            if anchor_exists(name):
                unreached.append(name)
            else:
                vanished.append(name)
    if unreached:
        inconclusive.append('required code never reached: '
                            + ', '.join(unreached))
    troubled = sorted(k for k in tot['monitors']
                      if k.startswith(('unavailable.', 'monitor-error.')))
    if troubled:
        # an inner monitor does not fit this tree (renamed function, other
        # parameter names, other attributes): it is left out and said so
        print('WARNING inner monitor(s) not applicable to this tree: '
              + ', '.join(f"{k}={tot['monitors'][k]}" for k in troubled))
    if vanished:
        # the function was renamed, moved or inlined in this tree: its reach
        # cannot be confirmed by name.  The verdict rests on the end-to-end
        # oracles, which do not depend on the repository's internal names.
        print('WARNING anchor function(s) not present in this tree under the '
              'recorded name: ' + ', '.join(vanished))
        if not tot['judged']:
            inconclusive.append('anchors not found and nothing was judged')
    min_eval = getattr(mod, 'MIN_EVALUATIONS', {'quick': 10, 'thorough': 10})
    if tot['evaluations'] < min_eval[args.tier]:
        inconclusive.append(f"only {tot['evaluations']} cases evaluated")
    if hasattr(mod, 'inconclusive_reasons'):
        inconclusive.extend(mod.inconclusive_reasons(tot, args.tier))

    # replay files
    replay_paths = []
    rdir = os.path.join(VERIF, 'replay', pid)
    for grp in new_violations:
        os.makedirs(rdir, exist_ok=True)
        for exm in grp['examples'][:2]:
            cas = exm['case']
            name = (f"{cas['family']}-{cas['index']}-s{cas['seed']}-"
                    f"{cas['tier']}-{grp['kind']}.json")
            path = os.path.join(rdir, name.replace('/', '_'))
            with open(path, 'w') as fil:
                json.dump(exm, fil, indent=1)
            replay_paths.append(path)

    n_viol = sum(g['count'] for g in new_violations)
    if not args.no_evidence:
        write_evidence(mod, pid, args, tot, wall, n_viol, known_seen,
                       unreached, inconclusive)

    print(f'{pid} {args.tier} seed={args.seed}: {tot["evaluations"]} cases, '
          f'{len(tot["structures"])} distinct non-trivial, '
          f'{tot["judged"]} judged observations, '
          f'{tot["discarded"]} discarded, wall {wall:.1f}s')
    interesting = {k: v for k, v in tot['counters'].items()}
    if interesting:
        print('  counters: ' + ', '.join(f'{k}={v}' for k, v in
                                         sorted(interesting.items())))
    for key, cnt in sorted(known_seen.items()):
        print(f"KNOWN-FINDING: property={pid} {known[key]['what']} "
              f"[{key}; seen {cnt}x]")
    if new_violations:
        for grp, path in zip(new_violations, replay_paths):
            pass
        for grp in new_violations:
            exm = grp['examples'][0]
            print(f"  violation kind={grp['kind']} mech={grp['mech']} "
                  f"count={grp['count']}: {str(exm['detail'])[:400]}")
        for path in replay_paths[:6]:
            print(f'VIOLATION property={pid} replay={path}')
        return 1
    if inconclusive:
        for msg in inconclusive:
            print(f'INCONCLUSIVE property={pid} {msg}')
        return 2
    print(f'HELD property={pid} on everything explored')
    return 0


_DEFINED = None


def defined_names():
    '''Every `relative/path.py:Qual.name` defined in the working tree, in the
    form the reach counters use.'''
    global _DEFINED
    if _DEFINED is not None:
        return _DEFINED
    import ast
    from . import shim
    root = os.path.realpath(shim.REPO)
    found = set()
    for dirpath, dirs, files in os.walk(root):
        dirs[:] = [d for d in dirs if d not in ('.git', '__pycache__')]
        for fname in files:
            if not fname.endswith('.py'):
                continue
            path = os.path.join(dirpath, fname)
            try:
                with open(path) as fil:
                    tree = ast.parse(fil.read())
            except (OSError, SyntaxError, ValueError):
                continue
            rel = os.path.relpath(path, root)

            def walk(node, prefix):
                for child in ast.iter_child_nodes(node):
                    if isinstance(child, ast.ClassDef):
                        walk(child, prefix + child.name + '.')
                    elif isinstance(child, (ast.FunctionDef,
                                            ast.AsyncFunctionDef)):
                        found.add(f'{rel}:{prefix}{child.name}')
                        walk(child, prefix + child.name + '.<locals>.')
                    else:
                        walk(child, prefix)
            walk(tree, '')
    _DEFINED = found
    return found


def anchor_exists(name):
    '''Is a function whose reach key ends with `name` still defined in the
    working tree?'''
    return any(key.endswith(name) for key in defined_names())


def write_evidence(mod, pid, args, tot, wall, n_viol, known_seen, unreached,
                   inconclusive):
    reach = {}
    anchors = getattr(mod, 'ANCHORS', [])
    for key, cnt in tot['reach'].items():
        if any(key.endswith(a) for a in anchors) or \
                any(key.endswith(a) for a in getattr(mod, 'REQUIRED_REACH', [])):
            reach[key] = cnt
    coverage = {
        'evaluations': tot['evaluations'],
        'distinct_nontrivial': len(tot['structures']),
        'rule': mod.RULE,
        'samples': tot['samples'][:4],
        'judged_observations': tot['judged'],
        'discarded_observations': tot['discarded'],
        'families': dict(tot['families']),
        'feature_tags': dict(tot['tags']),
        'monitor_evaluations': dict(tot['counters']),
        'contract_evaluations': dict(tot['monitors']),
        'rule_checks': dict(tot['rule_checks']),
        'reached': reach,
        'repo_functions_reached': len(tot['reach']),
        'unreached_required': unreached,
        'known_findings_observed': dict(known_seen),
        'skipped': dict(tot['skipped']),
        'inconclusive': inconclusive,
        'verdict': ('violated' if n_viol else
                    'inconclusive' if inconclusive else 'held on what was '
                    'observed'),
    }
    if getattr(mod, 'EXHAUSTIVE', None):
        coverage['exhaustive'] = bool(mod.EXHAUSTIVE(args.tier, tot))
    evidence = {
        'property_id': pid,
        'tier': args.tier,
        'seed': args.seed,
        'level': mod.LEVEL,
        'coverage': coverage,
        'assumptions': list(mod.ASSUMPTIONS),
        'wall_s': round(wall, 2),
        'violations': n_viol,
    }
    os.makedirs(os.path.join(VERIF, 'evidence'), exist_ok=True)
    path = os.path.join(VERIF, 'evidence', f'{pid}.json')
    with open(path, 'w') as fil:
        json.dump(evidence, fil, indent=1, sort_keys=True, default=str)


def replay(pid, path):
    from . import shim
    with open(path) as fil:
        data = json.load(fil)
    cas = data['case']
    mod = core.load_prop(cas['prop'])
    shim.setup()
    if hasattr(mod, 'attach_monitors'):
        mod.attach_monitors()
    case = core.Case(cas['prop'], cas['family'], cas['index'], cas['seed'],
                     cas['tier'])
    with shim.Workdir() as workdir:
        ctx = core.Context(workdir)
        out = core.run_one(mod, case, ctx)
    for name, text, argv in out.decks:
        print(f'--- {name} argv={argv}')
        print(text)
    findings = {f['key'] for f in load_findings()
                if f['property'] == cas['prop'] and f['status'] == 'known'}
    bad = [v for v in out.violations if v.get('mech') not in findings]
    for vio in out.violations:
        print(f"  {vio['kind']} mech={vio.get('mech')}: "
              f"{str(vio['detail'])[:1500]}")
    if bad:
        print(f'VIOLATION property={cas["prop"]} replay={path}')
        return 1
    print('replay: no (unlisted) violation on the current tree')
    return 0


if __name__ == '__main__':
    sys.exit(main())
