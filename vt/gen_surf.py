'''Generators of surface cards (elementary surfaces and macrobodies) and of
rotation matrices / TR cards.  Parameters are asymmetric on purpose.'''
import math
import numpy as np

from .mcnp_ref import Motion
from . import model as M

WORLD = 12.0


def rnd(rng, lo, hi, digits=3):
    val = round(rng.uniform(lo, hi), digits)
    return val


def nz(rng, lo, hi, digits=3):
    '''Non-zero value with random sign and magnitude in [lo, hi].'''
    val = rnd(rng, lo, hi, digits)
    return val if rng.random() < 0.5 else -val


# --------------------------------------------------------------------------
# elementary surfaces
# --------------------------------------------------------------------------
ELEMENTARY_FAMILIES = {
    'p': ['general', 'axis+', 'axis-', '3pt-Dpos', '3pt-Dneg', '3pt-D0-C',
          '3pt-D0-B', '3pt-D0-A', '3pt-generic', '3pt-axis-neg',
          '3pt-axis-pos', '3pt-close', '3pt-D0-large', '3pt-thin',
          '3pt-D0-flat', '3pt-far-small-D', '3pt-decimal-sweep'],
    'px': ['any'], 'py': ['any'], 'pz': ['any'],
    'so': ['any'], 's': ['any'], 'sx': ['any'], 'sy': ['any'], 'sz': ['any'],
    'c/x': ['any'], 'c/y': ['any'], 'c/z': ['any'],
    'cx': ['any'], 'cy': ['any'], 'cz': ['any'],
    'k/x': ['two', 'plus', 'minus'], 'k/y': ['two', 'plus', 'minus'],
    'k/z': ['two', 'plus', 'minus'],
    'kx': ['two', 'plus', 'minus'], 'ky': ['two', 'plus', 'minus'],
    'kz': ['two', 'plus', 'minus'],
    'sq': ['ellipsoid', 'hyper1', 'hyper2', 'paraboloid', 'cylinder',
           'poscentre', 'zero-const'],
    'gq': ['ellipsoid', 'cross', 'generic'],
    'tx': ['circular', 'elliptic', 'spindle'],
    'ty': ['circular', 'elliptic', 'spindle'],
    'tz': ['circular', 'elliptic', 'spindle'],
    'x': ['plane1', 'plane2', 'cyl', 'cone-up', 'cone-down', 'cone-apex'],
    'y': ['plane1', 'plane2', 'cyl', 'cone-up', 'cone-down', 'cone-apex'],
    'z': ['plane1', 'plane2', 'cyl', 'cone-up', 'cone-down', 'cone-apex'],
}


def random_rotation(rng):
    '''A generic proper rotation (numpy 3x3), rows orthonormal.'''
    quat = np.array([rng.gauss(0, 1) for _ in range(4)])
    quat /= np.linalg.norm(quat)
    a, b, c, d = quat
    return np.array([
        [a*a + b*b - c*c - d*d, 2*(b*c - a*d), 2*(b*d + a*c)],
        [2*(b*c + a*d), a*a - b*b + c*c - d*d, 2*(c*d - a*b)],
        [2*(b*d - a*c), 2*(c*d + a*b), a*a - b*b - c*c + d*d]])


def _p3_n(crd):
    d12 = [crd[3 + k] - crd[k] for k in range(3)]
    d13 = [crd[6 + k] - crd[k] for k in range(3)]
    return (d12[1] * d13[2] - d12[2] * d13[1],
            d12[2] * d13[0] - d12[0] * d13[2],
            d12[0] * d13[1] - d12[1] * d13[0])


def _p3_a(crd):
    return _p3_n(crd)[0]


def _p3_b(crd):
    return _p3_n(crd)[1]


def _p3_c(crd):
    return _p3_n(crd)[2]


def _p3_d(crd):
    nrm = _p3_n(crd)
    return sum(nrm[k] * crd[k] for k in range(3))


def three_points(rng, normal, dval, close=False):
    '''Three non-collinear points of the plane n.p = d, in random order; with
    `close` the points are a few millimetres from each other.'''
    nrm = np.asarray(normal, dtype=float)
    nrm = nrm / np.linalg.norm(nrm)
    helper = np.array([1., 0., 0.]) if abs(nrm[0]) < 0.9 else np.array([0., 1., 0.])
    e1 = np.cross(nrm, helper)
    e1 /= np.linalg.norm(e1)
    e2 = np.cross(nrm, e1)
    base = nrm * dval
    if close:
        base = base + rng.uniform(-2, 2) * e1 + rng.uniform(-2, 2) * e2
    pts = []
    for ang in (0.3, 2.2, 4.4):
        rad = rng.uniform(2.0, 5.0) if not close else rng.uniform(3e-4, 1.5e-3)
        ang += rng.uniform(-0.4, 0.4)
        pts.append(base + rad * (math.cos(ang) * e1 + math.sin(ang) * e2))
    if rng.random() < 0.5:
        pts[1], pts[2] = pts[2], pts[1]
    return [float(v) for p in pts for v in p]


# indices of the parameters that position a surface (centre / offset), per
# mnemonic, for the 'zeros' families: exact zeros and coincidences are where
# special-casing in the converter lives
POSITION_PARAMS = {
    'p': [3], 'px': [0], 'py': [0], 'pz': [0], 's': [0, 1, 2], 'sx': [0],
    'sy': [0], 'sz': [0], 'c/x': [0, 1], 'c/y': [0, 1], 'c/z': [0, 1],
    'k/x': [0, 1, 2], 'k/y': [0, 1, 2], 'k/z': [0, 1, 2], 'kx': [0],
    'ky': [0], 'kz': [0], 'sq': [7, 8, 9], 'tx': [0, 1, 2], 'ty': [0, 1, 2],
    'tz': [0, 1, 2], 'gq': [6, 7, 8],
}
for _kind, _idx in POSITION_PARAMS.items():
    ELEMENTARY_FAMILIES[_kind] = ELEMENTARY_FAMILIES[_kind] + ['zeros']


def elementary(rng, kind, family):
    '''Return the parameter list of one card.'''
    if family == 'zeros':
        base = rng.choice([f for f in ELEMENTARY_FAMILIES[kind]
                           if f not in ('zeros',) and not f.startswith('3pt')])
        par = elementary(rng, kind, base)
        idx = POSITION_PARAMS[kind]
        if kind == 'p' and len(par) != 4:
            return par
        for i in rng.sample(idx, rng.randint(1, len(idx))):
            par[i] = 0.0
        if kind in ('kx', 'ky', 'kz', 'k/x', 'k/y', 'k/z') and \
                rng.random() < 0.5:
            par[1 if '/' not in kind else 3] = 1.0      # t^2 = 1 exactly
        return par
    k = kind
    if k == 'p':
        if family == 'general':
            return [nz(rng, 0.2, 1), nz(rng, 0.2, 1), nz(rng, 0.2, 1),
                    rnd(rng, -4, 4)]
        if family in ('axis+', 'axis-'):
            par = [0, 0, 0, rnd(rng, -4, 4)]
            sign = 1 if family == 'axis+' else -1
            par[rng.randrange(3)] = sign * rnd(rng, 0.5, 2)
            return par
        if family == '3pt-generic':
            nrm = [nz(rng, 0.2, 1), nz(rng, 0.2, 1), nz(rng, 0.2, 1)]
            return three_points(rng, nrm, nz(rng, 0.5, 4))
        if family == '3pt-close':
            nrm = [nz(rng, 0.2, 1), nz(rng, 0.2, 1), nz(rng, 0.2, 1)]
            return three_points(rng, nrm, nz(rng, 0.5, 4), close=True)
        if family == '3pt-thin':
            # a long and very thin triangle (the side face of a foil): two
            # points some centimetres apart, the third one 1e-3 to 1e-6 cm
            # off the line through them
            length = rng.choice([5.0, 10.0, 20.0])
            height = rng.choice([1e-3, 1e-4, 1e-5, 2e-6])
            frac = rng.choice([0.0, 1.0, 0.37])
            if rng.random() < 0.5:
                ax = rng.randrange(3)
                oth = [i for i in range(3) if i != ax]
                val = nz(rng, 0.5, 4)
                a, b = rnd(rng, -3, 3), rnd(rng, -3, 3)
                pts = []
                for da, db in ((0.0, 0.0), (length, 0.0),
                               (frac * length, height)):
                    pnt = [0.0, 0.0, 0.0]
                    pnt[ax] = val
                    pnt[oth[0]] = a + da
                    pnt[oth[1]] = b + db
                    pts.append(pnt)
            else:
                nrm = np.array([nz(rng, 0.2, 1), nz(rng, 0.2, 1),
                                nz(rng, 0.2, 1)])
                nrm = nrm / np.linalg.norm(nrm)
                e1 = np.cross(nrm, [1.0, 0.0, 0.0])
                e1 /= np.linalg.norm(e1)
                e2 = np.cross(nrm, e1)
                base = nrm * nz(rng, 0.5, 4) + rnd(rng, -2, 2) * e1
                pts = [list(base), list(base + length * e1),
                       list(base + frac * length * e1 + height * e2)]
            rng.shuffle(pts)
            return [float(v) for pnt in pts for v in pnt]
        if family == '3pt-Dpos':
            nrm = [nz(rng, 0.2, 1), nz(rng, 0.2, 1), nz(rng, 0.2, 1)]
            return three_points(rng, nrm, rnd(rng, 0.5, 4))
        if family == '3pt-Dneg':
            nrm = [nz(rng, 0.2, 1), nz(rng, 0.2, 1), nz(rng, 0.2, 1)]
            return three_points(rng, nrm, -rnd(rng, 0.5, 4))
        if family in ('3pt-axis-neg', '3pt-axis-pos'):
            # the three points share one coordinate exactly
            ax = rng.randrange(3)
            val = rnd(rng, 0.5, 5) * (-1 if family == '3pt-axis-neg' else 1)
            pts = []
            for ang in (0.4, 2.3, 4.1):
                rad = rng.uniform(1.5, 4)
                pnt = [0.0, 0.0, 0.0]
                oth = [i for i in range(3) if i != ax]
                pnt[ax] = val
                pnt[oth[0]] = round(rad * math.cos(ang), 3)
                pnt[oth[1]] = round(rad * math.sin(ang), 3)
                pts.append(pnt)
            if rng.random() < 0.5:
                pts[0], pts[2] = pts[2], pts[0]
            return [v for pnt in pts for v in pnt]
        if family == '3pt-D0-large':
            # a plane through the origin given by points metres away, with
            # coordinates that are not exactly representable: D = 0 up to a
            # rounding error that grows with the coordinates
            nrm = [nz(rng, 0.2, 1), nz(rng, 0.2, 1),
                   rng.choice([0.0, nz(rng, 0.2, 1)])]
            pts = _exact_plane_points(rng, nrm)
            scale = rng.choice([37.3, 173.2051, 84.5237, 512.7, 1000.1])
            # one point stays the origin itself in half of the cases
            out = [v * scale for v in pts]
            if rng.random() < 0.5:
                k = rng.randrange(3)
                out[3 * k:3 * k + 3] = [0.0, 0.0, 0.0]
            return out
        if family == '3pt-decimal-sweep':
            # three points with a few decimals each on a plane a x + b y +
            # c z = d with small integer a, b, c (some of them zero) and d
            # zero, tiny or ordinary, at every scale from centimetres to
            # kilometres and from fat to very thin triangles: the rule is
            # decided by the numbers as typed
            from fractions import Fraction as Fr
            while True:
                abc = [rng.choice([0, 0, 1, -1, 2, -2, 3, -4, 5])
                       for _ in range(3)]
                if any(abc):
                    break
            piv = rng.choice([k for k in range(3) if abc[k]])
            # the pivot coefficient must divide decimals exactly
            abc[piv] = rng.choice([1, -1, 2, -2, 4, 5, -5])
            dval = Fr(rng.choice(['0', '0', '0', '1e-6', '-1e-6', '1e-4',
                                  '-1e-4', '0.01', '-0.01', '1', '-1', '250',
                                  '-1000']))
            scale = 10 ** rng.randint(0, 6)
            digits = rng.randint(0, 3)
            free = [k for k in range(3) if k != piv]
            # a third of the cards are "computed": every number multiplied
            # by a factor that makes it seventeen digits long
            computed = (1.0 + 3.141592653589793e-7) if rng.random() < 0.4 \
                else None
            if not computed and rng.random() < 0.4:
                # typed numbers are taken exactly: a plane kilometres away
                # that misses the origin by a fraction of a micrometre is
                # not a plane through the origin
                dval = Fr(rng.choice(['1e-6', '-1e-6', '3e-7', '-2e-7',
                                      '-1e-5', '4e-6']))
                scale = 10 ** rng.randint(4, 6)
            if computed and rng.random() < 0.7:
                # where a band that is too wide shows: a plane that misses
                # the origin by a micrometre or so, metres away
                dval = Fr(rng.choice(['1e-6', '-1e-6', '1e-5', '-1e-5',
                                      '-1e-4', '3e-6', '-3e-7']))
                scale = 10 ** rng.randint(2, 4)

            def point(u, v):
                crd = [Fr(0)] * 3
                crd[free[0]] = Fr(round(u, digits)).limit_denominator(10**digits)
                crd[free[1]] = Fr(round(v, digits)).limit_denominator(10**digits)
                crd[piv] = (dval - abc[free[0]] * crd[free[0]]
                            - abc[free[1]] * crd[free[1]]) / abc[piv]
                return crd
            for _ in range(50):
                u0, v0 = rng.uniform(-scale, scale), rng.uniform(-scale, scale)
                length = 10 ** rng.uniform(-1, math.log10(scale) + 0.01)
                thin = 10 ** rng.uniform(-5, 0)
                ang = rng.uniform(0, 6.283)
                du, dv = length * math.cos(ang), length * math.sin(ang)
                pts = [point(u0, v0), point(u0 + du, v0 + dv),
                       point(u0 + rng.uniform(0, 1) * du - thin * dv,
                             v0 + rng.uniform(0, 1) * dv + thin * du)]
                d12 = [b - a for a, b in zip(pts[0], pts[1])]
                d13 = [b - a for a, b in zip(pts[0], pts[2])]
                nrm = [d12[1] * d13[2] - d12[2] * d13[1],
                       d12[2] * d13[0] - d12[0] * d13[2],
                       d12[0] * d13[1] - d12[1] * d13[0]]
                n2 = float(sum(c * c for c in nrm))
                l2 = float(sum(c * c for c in d12)) * \
                    float(sum(c * c for c in d13))
                if not (l2 > 0 and n2 > 1e-18 * l2):
                    continue
                # a triangle of millimetres seen from kilometres fixes its
                # plane near the origin (where the probes are) only as well
                # as double precision allows: keep to cards for which that
                # is well below the oracle's own tolerance
                size = max(abs(float(c)) for pnt in pts for c in pnt) + 1.0
                l12 = math.sqrt(float(sum(c * c for c in d12)))
                l13 = math.sqrt(float(sum(c * c for c in d13)))
                if 1.2e-16 * size * size * (l12 + l13) > 2e-6 * math.sqrt(n2):
                    continue
                # the deciding quantity (the first of D, C, B, A that is not
                # zero) must stand clear of what one unit in the last place
                # of the coordinates can change: between 1/2 and a few dozen
                # units the rule is a matter of taste, not of arithmetic
                flat = [c for pnt in pts for c in pnt]
                if computed:
                    flat = [Fr(float(c) * computed) for c in flat]
                clear = True
                for func in (_p3_d, _p3_c, _p3_b, _p3_a):
                    val = func(flat)
                    if val == 0:
                        continue
                    spread = 0
                    for k, crd in enumerate(flat):
                        if crd:
                            moved = list(flat)
                            moved[k] = crd + 1
                            spread += abs(crd) * abs(func(moved) - val)
                    # (numbers of at most fifteen digits are taken as they
                    # are typed: only longer ones need standing clear)
                    clear = abs(val) > 60 * spread * Fr(1, 2**52) or all(
                        len(repr(float(c)).split('e')[0].replace('-', '')
                            .replace('.', '').strip('0')) <= 15 for c in flat)
                    break
                if clear:
                    break
            else:
                return elementary(rng, 'p', '3pt-axis-pos')
            rng.shuffle(pts)
            if computed:
                return [float(c) * computed for pnt in pts for c in pnt]
            return [float(c) for pnt in pts for c in pnt]
        if family == '3pt-far-small-D':
            # a plane that misses the origin by a tenth of a millimetre to a
            # millimetre, given by a small triangle hundreds of metres away
            # (all entries exact): D is small, but it is not zero
            ax = rng.randrange(3)
            oth = [i for i in range(3) if i != ax]
            dval = rng.choice([1e-4, -1e-4, 1e-3, -1e-3, -0.01, 0.01])
            far = rng.choice([1e4, 1e5, 1e5, 3e5 if abs(dval) >= 1e-3 else 1e5])
            a, b = far * rng.choice([1, -1]), far * rng.choice([1, -1, 0.5])
            pts = []
            for da, db in ((0.0, 0.0), (1.0, 0.0), (0.0, 1.0)):
                pnt = [0.0, 0.0, 0.0]
                pnt[ax] = dval
                pnt[oth[0]] = a + da
                pnt[oth[1]] = b + db
                pts.append(pnt)
            rng.shuffle(pts)
            if rng.random() < 0.5:
                # the same triangle as the result of a computation: numbers
                # of seventeen digits, which carry an uncertainty of their
                # own (a few units in the last place).  The three points
                # share the small coordinate, so that uncertainty moves D by
                # 1e-12 at most: D may be as small as 1e-8 and still be
                # thousands of times what could be noise
                tiny = rng.choice([1e-8, -1e-8, 1e-7, -1e-7, dval])
                fac = 1.0 + rng.choice([3.141592653589793e-7,
                                        2.718281828459045e-8])
                return [(tiny if v == dval else v) * fac
                        for pnt in pts for v in pnt]
            return [v for pnt in pts for v in pnt]
        if family == '3pt-D0-flat':
            # a plane through the origin and parallel to one coordinate axis
            # (D = 0 and C = 0, or B = 0, exactly in decimal arithmetic),
            # given by points metres apart in the plane's own direction but
            # centimetres apart along that axis: a thin triangle, on which
            # the computed normal carries more noise than usual
            a, b = rng.choice([(4, 5), (3, -2), (1, 2), (5, -3), (2, 7),
                               (-4, 5), (1, -1)])
            free = rng.choice([2, 2, 1])          # the axis the plane contains
            oth = [i for i in range(3) if i != free]
            while True:
                ts = [rng.randint(-700, 700) / 10.0 for _ in range(3)]
                zs = [rng.randint(-30, 30) / 10.0 for _ in range(3)]
                if len(set(ts)) == 3 and len(set(zs)) == 3 and \
                        abs((ts[1] - ts[0]) * (zs[2] - zs[0])
                            - (ts[2] - ts[0]) * (zs[1] - zs[0])) > 1.0:
                    break
            out = []
            for tval, zval in zip(ts, zs):
                pnt = [0.0, 0.0, 0.0]
                pnt[oth[0]] = tval * b
                pnt[oth[1]] = -tval * a
                pnt[free] = zval
                out += pnt
            return out
        if family == '3pt-D0-C':
            nrm = [nz(rng, 0.2, 1), nz(rng, 0.2, 1), nz(rng, 0.2, 1)]
            return _exact_plane_points(rng, nrm)
        if family == '3pt-D0-B':
            nrm = [nz(rng, 0.2, 1), nz(rng, 0.2, 1), 0.0]
            return _exact_plane_points(rng, nrm)
        if family == '3pt-D0-A':
            nrm = [nz(rng, 0.2, 1), 0.0, 0.0]
            return _exact_plane_points(rng, nrm)
    if k in ('px', 'py', 'pz'):
        return [rng.choice([0.0, rnd(rng, -5, 5), -rnd(rng, 0.5, 5)])]
    if k == 'so':
        return [rnd(rng, 1, 8)]
    if k == 's':
        return [rnd(rng, -4, 4), rnd(rng, -4, 4), rnd(rng, -4, 4),
                rnd(rng, 1, 5)]
    if k in ('sx', 'sy', 'sz'):
        return [rnd(rng, -5, 5), rnd(rng, 1, 5)]
    if k in ('cx', 'cy', 'cz'):
        return [rnd(rng, 0.5, 6)]
    if k in ('c/x', 'c/y', 'c/z'):
        return [rnd(rng, -4, 4), rnd(rng, -4, 4), rnd(rng, 0.5, 4)]
    if k in ('kx', 'ky', 'kz', 'k/x', 'k/y', 'k/z'):
        t2 = round(10 ** rng.uniform(-2, 2), 4)
        if rng.random() < 0.5:
            t2 = rnd(rng, 0.1, 3)
        if '/' in k:
            par = [rnd(rng, -4, 4), rnd(rng, -4, 4), rnd(rng, -4, 4), t2]
        else:
            par = [rnd(rng, -5, 5), t2]
        if family == 'plus':
            par.append(1)
        elif family == 'minus':
            par.append(-1)
        return par
    if k == 'sq':
        cen = [rnd(rng, -3, 3), rnd(rng, -3, 3), rnd(rng, -3, 3)]
        a, b, c = rnd(rng, 0.2, 2), rnd(rng, 0.2, 2), rnd(rng, 0.2, 2)
        lin = [0.0, 0.0, 0.0]
        g = -rnd(rng, 1, 9)
        if family == 'hyper1':
            c = -c
        elif family == 'hyper2':
            b, c = -b, -c
            g = rnd(rng, 1, 9) if rng.random() < 0.0 else -rnd(rng, 1, 9)
        elif family == 'paraboloid':
            c = 0.0
            lin = [0.0, 0.0, nz(rng, 0.3, 2)]
            g = -rnd(rng, 0, 3)
        elif family == 'cylinder':
            which = rng.randrange(3)
            coef = [a, b, c]
            coef[which] = 0.0
            a, b, c = coef
        elif family == 'zero-const':
            # G = 0: cones and paraboloids with an off-origin vertex written
            # as SQ; the value of the expanded polynomial at the centre is
            # zero up to rounding
            cen = [rng.choice([0.1, 0.3, 0.7, 0.2, 0.6, 1.3, 0.4, 2.54, 1.1])
                   * rng.choice([-1, 1]) for _ in range(3)]
            g = 0.0
            if rng.random() < 0.6:
                a, b, c = 1.0, 1.0, -rng.choice([1.0, 0.5, 2.0])    # cone
                if rng.random() < 0.5:
                    a, b, c = -a, -b, -c
            else:
                c = 0.0
                lin = [0.0, 0.0, nz(rng, 0.3, 2)]                  # paraboloid
        elif family == 'poscentre':
            # the polynomial is positive at the centre: negative sense is the
            # outside of the ellipsoid
            a, b, c, g = -a, -b, -c, rnd(rng, 1, 9)
        if family in ('ellipsoid', 'hyper1') and rng.random() < 0.4:
            lin = [rnd(rng, -0.5, 0.5), 0.0, rnd(rng, -0.5, 0.5)]
        return [a, b, c] + lin + [g] + cen
    if k == 'gq':
        if family == 'ellipsoid':
            cen = np.array([rnd(rng, -3, 3) for _ in range(3)])
            rot = random_rotation(rng)
            diag = np.diag([1 / rnd(rng, 1, 4)**2 for _ in range(3)])
            return _gq_from(rot.T @ diag @ rot, cen, -1.0)
        if family == 'cross':
            cen = np.array([rnd(rng, -2, 2) for _ in range(3)])
            rot = random_rotation(rng)
            diag = np.diag([1 / rnd(rng, 1, 4)**2, 1 / rnd(rng, 1, 4)**2,
                            -1 / rnd(rng, 1, 4)**2])
            return _gq_from(rot.T @ diag @ rot, cen, -1.0)
        return [nz(rng, 0.1, 1), nz(rng, 0.1, 1), nz(rng, 0.1, 1),
                rnd(rng, -0.5, 0.5), rnd(rng, -0.5, 0.5), rnd(rng, -0.5, 0.5),
                rnd(rng, -2, 2), rnd(rng, -2, 2), rnd(rng, -2, 2),
                rnd(rng, -9, 9)]
    if k in ('tx', 'ty', 'tz'):
        cen = [rnd(rng, -3, 3), rnd(rng, -3, 3), rnd(rng, -3, 3)]
        amaj = rnd(rng, 2, 5)
        if family == 'circular':
            rad = rnd(rng, 0.4, 1.5)
            return cen + [amaj, rad, rad]
        if family == 'elliptic':
            return cen + [amaj, rnd(rng, 0.4, 1.8), rnd(rng, 0.4, 1.8)]
        # spindle: minor radius in the radial direction exceeds the major one
        return cen + [rnd(rng, 0.5, 1.5), rnd(rng, 0.5, 2), rnd(rng, 1.8, 3)]
    if k in ('x', 'y', 'z'):
        if family == 'plane1':
            return [rnd(rng, -5, 5), rnd(rng, 0.5, 4)]
        if family == 'plane2':
            pos = rnd(rng, -5, 5)
            return [pos, rnd(rng, 0.5, 4), pos, rnd(rng, 0.5, 4)]
        if family == 'cyl':
            rad = rnd(rng, 0.5, 5)
            return [rnd(rng, -5, 0), rad, rnd(rng, 0.5, 5), rad]
        h1 = rnd(rng, -4, 0)
        h2 = rnd(rng, 1, 5)
        r1, r2 = rnd(rng, 0.5, 2), rnd(rng, 2.5, 5)
        if family == 'cone-apex':
            # one of the two points is the apex itself (r = 0)
            r1 = 0.0
            if rng.random() < 0.5:
                h1, h2 = h2, h1
        if family == 'cone-down':
            r1, r2 = r2, r1
        if rng.random() < 0.5:
            return [h2, r2, h1, r1]
        return [h1, r1, h2, r2]
    raise ValueError((kind, family))


def _exact_plane_points(rng, nrm):
    '''Three points of a plane through the origin with normal exactly
    perpendicular in floating point (small integers), so that D is exactly
    0 and the C / B / A branches of the orientation rule are reached.'''
    a, b, c = nrm
    # use integer normals for exactness
    ia = rng.choice([-3, -2, -1, 1, 2, 3]) if a != 0 else 0
    ib = rng.choice([-3, -2, -1, 1, 2, 3]) if b != 0 else 0
    ic = rng.choice([-3, -2, -1, 1, 2, 3]) if c != 0 else 0
    nvec = np.array([ia, ib, ic], dtype=float)
    # two integer vectors orthogonal to nvec
    cands = []
    for vec in ([ib, -ia, 0], [ic, 0, -ia], [0, ic, -ib], [1, 0, 0],
                [0, 1, 0], [0, 0, 1]):
        vec = np.array(vec, dtype=float)
        if vec.any() and vec @ nvec == 0:
            cands.append(vec)
    e1 = cands[0]
    e2 = next(v for v in cands[1:] if np.linalg.norm(np.cross(e1, v)) > 0)
    pts = [e1 * 2, e2 * 3, -(e1 + e2)]
    rng.shuffle(pts)
    return [float(v) for p in pts for v in p]


def _gq_from(amat, cen, const):
    '''(p-c)^T A (p-c) + const = 0 in GQ coefficient order.'''
    amat = np.asarray(amat)
    lin = -2 * amat @ cen
    k = float(cen @ amat @ cen + const)
    return [float(amat[0, 0]), float(amat[1, 1]), float(amat[2, 2]),
            float(2 * amat[0, 1]), float(2 * amat[1, 2]), float(2 * amat[0, 2]),
            float(lin[0]), float(lin[1]), float(lin[2]), k]


# --------------------------------------------------------------------------
# macrobodies
# --------------------------------------------------------------------------
MACRO_FAMILIES = {
    'box': ['aligned', 'rotated', 'lefthanded', 'aligned-xyz-signs'],
    'rpp': ['any'],
    'sph': ['any'],
    'rcc': ['aligned', 'rotated', 'negaxis'],
    'rhp': ['9-aligned', '9-rotated', '15-regular', '15-irregular',
            '15-negaxis'],
    'hex': ['9-aligned', '15-irregular'],
    'rec': ['10', '12', '12-rotated', '10-rotated'],
    'trc': ['shrinking', 'growing', 'rotated'],
    'ell': ['neg-prolate', 'neg-oblate', 'neg-axis-x', 'neg-axis-y',
            'neg-axis-z', 'pos-foci'],
    'wed': ['aligned', 'rotated', 'lefthanded'],
    'arb': ['tetra', 'pyramid', 'wedge', 'hexa', 'hexa-cw', 'foil'],
}


def _frame(rng, rotated):
    if rotated:
        return random_rotation(rng)
    mats = [np.eye(3), np.eye(3)[[1, 2, 0]], np.eye(3)[[2, 0, 1]]]
    return mats[rng.randrange(3)]


def _r3(vec):
    # full precision: rounding would spoil orthogonality of rotated frames
    return [float(v) for v in vec]


def macrobody(rng, kind, family):
    k = kind
    base = np.array([rnd(rng, -3, 3) for _ in range(3)])
    if k == 'box' and family == 'aligned-xyz-signs':
        # edges along x, y, z in that order, every sign combination
        lens = [rnd(rng, 1.5, 5), rnd(rng, 1, 4), rnd(rng, 0.8, 3)]
        vecs = [np.eye(3)[i] * lens[i] * (1 if rng.random() < 0.5 else -1)
                for i in range(3)]
        return _r3(base) + _r3(vecs[0]) + _r3(vecs[1]) + _r3(vecs[2])
    if k == 'box':
        rot = _frame(rng, family not in ('aligned',))
        lens = [rnd(rng, 1.5, 5), rnd(rng, 1, 4), rnd(rng, 0.8, 3)]
        vecs = [rot[i] * lens[i] * (1 if rng.random() < 0.7 else -1)
                for i in range(3)]
        if family == 'lefthanded':
            if np.linalg.det(np.array(vecs)) > 0:
                vecs[0], vecs[1] = vecs[1], vecs[0]
        elif np.linalg.det(np.array(vecs)) < 0:
            vecs[0], vecs[1] = vecs[1], vecs[0]
        return _r3(base) + _r3(vecs[0]) + _r3(vecs[1]) + _r3(vecs[2])
    if k == 'rpp':
        out = []
        for _ in range(3):
            lo = rnd(rng, -5, 2)
            out += [lo, round(lo + rnd(rng, 1, 5), 3)]
        return out
    if k == 'sph':
        return _r3(base) + [rnd(rng, 1, 4)]
    if k == 'rcc':
        rot = _frame(rng, family == 'rotated')
        hvec = rot[0] * rnd(rng, 2, 6)
        if family == 'negaxis':
            hvec = -hvec
        return _r3(base) + _r3(hvec) + [rnd(rng, 1, 3)]
    if k in ('rhp', 'hex'):
        rot = _frame(rng, 'rotated' in family or 'irregular' in family)
        hvec = rot[0] * rnd(rng, 2, 6)
        if 'negaxis' in family:
            hvec = -hvec
        ang = rng.uniform(0, 2 * math.pi)
        apo = rnd(rng, 1.5, 3)
        rvec = apo * (math.cos(ang) * rot[1] + math.sin(ang) * rot[2])
        if family.startswith('9'):
            return _r3(base) + _r3(hvec) + _r3(rvec)
        if 'irregular' in family:
            a2 = ang + math.radians(rng.uniform(45, 75))
            a3 = a2 + math.radians(rng.uniform(45, 75))
            svec = rnd(rng, 1.5, 3) * (math.cos(a2) * rot[1] + math.sin(a2) * rot[2])
            tvec = rnd(rng, 1.5, 3) * (math.cos(a3) * rot[1] + math.sin(a3) * rot[2])
        else:
            sgn = 1 if rng.random() < 0.5 else -1
            a2 = ang + sgn * math.pi / 3
            a3 = ang + sgn * 2 * math.pi / 3
            svec = apo * (math.cos(a2) * rot[1] + math.sin(a2) * rot[2])
            tvec = apo * (math.cos(a3) * rot[1] + math.sin(a3) * rot[2])
        return _r3(base) + _r3(hvec) + _r3(rvec) + _r3(svec) + _r3(tvec)
    if k == 'rec':
        rot = _frame(rng, 'rotated' in family)
        hvec = rot[0] * rnd(rng, 2, 6)
        ang = rng.uniform(0, 2 * math.pi)
        ua = math.cos(ang) * rot[1] + math.sin(ang) * rot[2]
        ub = np.cross(rot[0], ua)
        la, lb = rnd(rng, 2, 4), rnd(rng, 0.8, 1.8)
        if family.startswith('12'):
            if rng.random() < 0.5:
                ub = -ub
            # full precision: the two axes must stay orthogonal
            return ([float(v) for v in base] + [float(v) for v in hvec]
                    + [float(v) for v in ua * la] + [float(v) for v in ub * lb])
        return ([float(v) for v in base] + [float(v) for v in hvec]
                + [float(v) for v in ua * la] + [lb])
    if k == 'trc':
        rot = _frame(rng, family == 'rotated')
        hvec = rot[0] * rnd(rng, 2, 6) * (1 if rng.random() < 0.6 else -1)
        r0, r1 = rnd(rng, 2, 3.5), rnd(rng, 0.5, 1.5)
        if family == 'growing' or (family == 'rotated' and rng.random() < 0.5):
            r0, r1 = r1, r0
        return _r3(base) + _r3(hvec) + [r0, r1]
    if k == 'ell':
        if family == 'pos-foci':
            rot = random_rotation(rng)
            half = rnd(rng, 0.8, 2)
            f1 = base + rot[0] * half
            f2 = base - rot[0] * half
            return _r3(f1) + _r3(f2) + [round(half + rnd(rng, 0.8, 2), 3)]
        if family.startswith('neg-axis'):
            axis = np.eye(3)['xyz'.index(family[-1])]
            axis = axis * (1 if rng.random() < 0.5 else -1)
            if rng.random() < 0.5:
                # slightly off the axis, inside the 1e-3 switch of the code
                axis = axis + np.array([3e-4, -2e-4, 1e-4])
        else:
            axis = random_rotation(rng)[0]
        maj = rnd(rng, 2, 4)
        mnr = rnd(rng, 0.8, 1.6)
        if family == 'neg-oblate':
            maj, mnr = mnr, maj
        return _r3(base) + [float(v) for v in axis * maj] + [-mnr]
    if k == 'wed':
        rot = _frame(rng, family != 'aligned')
        avec = rot[0] * rnd(rng, 1.5, 4) * (1 if rng.random() < 0.7 else -1)
        bvec = rot[1] * rnd(rng, 1.5, 4) * (1 if rng.random() < 0.7 else -1)
        hvec = rot[2] * rnd(rng, 1.5, 4) * (1 if rng.random() < 0.7 else -1)
        det = np.linalg.det(np.array([avec, bvec, hvec]))
        if (family == 'lefthanded') != (det < 0):
            hvec = -hvec
        return ([float(v) for v in base] + [float(v) for v in avec]
                + [float(v) for v in bvec] + [float(v) for v in hvec])
    if k == 'arb':
        return _arb(rng, family, base)
    raise ValueError((kind, family))


def _arb(rng, family, base):
    rot = random_rotation(rng) if rng.random() < 0.5 else np.eye(3)
    sx, sy, sz = rnd(rng, 2, 4), rnd(rng, 2, 4), rnd(rng, 2, 4)
    if family == 'foil':
        # a sheet some centimetres wide and a few micrometres to a tenth of
        # a millimetre thick: its side faces are long and very thin
        sx, sy = rng.choice([5.0, 10.0, 20.0]), rng.choice([4.0, 10.0])
        sz = rng.choice([1e-2, 1e-3, 1e-4, 3e-5])
        if rng.random() < 0.5:
            rot = np.eye(3)

    def place(pts):
        out = []
        for pnt in pts:
            out.append(base + rot.T @ np.array(pnt, dtype=float))
        return out
    zero = [0.0, 0.0, 0.0]
    if family == 'tetra':
        verts = place([(0, 0, 0), (sx, 0, 0), (0.3, sy, 0), (0.5, 0.4, sz)])
        faces = [123, 124, 234, 134, 0, 0]
    elif family == 'pyramid':
        verts = place([(0, 0, 0), (sx, 0, 0), (sx, sy, 0), (0, sy, 0),
                       (sx / 2, sy / 3, sz)])
        faces = [1234, 125, 235, 345, 415, 0]
    elif family == 'wedge':
        verts = place([(0, 0, 0), (sx, 0, 0), (0, sy, 0),
                       (0, 0, sz), (sx, 0, sz), (0, sy, sz)])
        faces = [123, 456, 1254, 2365, 1364, 0]
    else:
        skew = 0.4
        verts = place([(0, 0, 0), (sx, 0, 0), (sx + skew, sy, 0), (skew, sy, 0),
                       (0, 0, sz), (sx, 0, sz), (sx + skew, sy, sz),
                       (skew, sy, sz)])
        if family == 'foil':
            skew = 0.0
            verts = place([(0, 0, 0), (sx, 0, 0), (sx, sy, 0), (0, sy, 0),
                           (0, 0, sz), (sx, 0, sz), (sx, sy, sz),
                           (0, sy, sz)])
        faces = [1234, 5678, 1265, 2376, 3487, 4158]
        if family == 'hexa-cw':
            faces = [4321, 8765, 5621, 6732, 7843, 8514]
    rng_faces = faces[:]
    vals = []
    for vert in verts:
        vals += [float(v) for v in vert]
    vals += zero * (8 - len(verts))
    return vals + [float(f) for f in rng_faces]


# --------------------------------------------------------------------------
# transformations
# --------------------------------------------------------------------------
ROT_CLASSES = ['identity', 'translation', 'generic', 'permutation',
               'flip-x', 'flip-y', 'flip-z', 'quarter', 'near-axis',
               'small-angle', 'near-flip']


def rotation_of_class(rng, cls):
    if cls in ('identity', 'translation'):
        return np.eye(3)
    if cls == 'generic':
        return random_rotation(rng)
    if cls == 'permutation':
        return np.eye(3)[[1, 2, 0]] if rng.random() < 0.5 else \
            np.eye(3)[[2, 0, 1]]
    if cls.startswith('flip'):
        # rotation by 180 degrees about one axis: the other two are reversed
        keep = 'xyz'.index(cls[-1])
        diag = [-1.0, -1.0, -1.0]
        diag[keep] = 1.0
        return np.diag(diag)
    if cls == 'quarter':
        ax = rng.randrange(3)
        i, j = [(1, 2), (2, 0), (0, 1)][ax]
        mat = np.zeros((3, 3))
        mat[ax, ax] = 1.0
        sgn = 1.0 if rng.random() < 0.5 else -1.0
        mat[i, j] = sgn
        mat[j, i] = -sgn
        return mat
    if cls == 'near-flip':
        # a half turn about a coordinate axis, off by 1e-8 to 1e-5 rad: an
        # axis that lands almost, but not exactly, on the opposite direction
        flip = rotation_of_class(rng, rng.choice(['flip-x', 'flip-y',
                                                  'flip-z']))
        ang = math.exp(rng.uniform(math.log(1e-8), math.log(1e-5))) * \
            rng.choice([-1, 1])
        cth, sth = math.cos(ang), math.sin(ang)
        i, j = rng.choice([(0, 1), (1, 2), (2, 0)])
        mat = np.eye(3)
        mat[i, i] = mat[j, j] = cth
        mat[i, j] = sth
        mat[j, i] = -sth
        return mat @ flip
    if cls == 'small-angle':
        # a tilt of 0.03 to 0.5 degrees about a coordinate axis: an object
        # that is almost, but not, aligned
        ang = math.exp(rng.uniform(math.log(5e-4), math.log(8e-3))) * \
            rng.choice([-1, 1])
        cth, sth = math.cos(ang), math.sin(ang)
        i, j = rng.choice([(0, 1), (1, 2), (2, 0)])
        mat = np.eye(3)
        mat[i, i] = mat[j, j] = cth
        mat[i, j] = sth
        mat[j, i] = -sth
        return mat
    if cls == 'near-axis':
        eps = 1e-12
        ang = eps
        cth, sth = math.cos(ang), math.sin(ang)
        return np.array([[cth, sth, 0.0], [-sth, cth, 0.0], [0.0, 0.0, 1.0]])
    raise ValueError(cls)


def motion_of_class(rng, cls):
    rot = rotation_of_class(rng, cls)
    if cls == 'identity':
        org = [0.0, 0.0, 0.0]
    else:
        org = [rnd(rng, -3, 3), rnd(rng, -3, 3), rnd(rng, -3, 3)]
    return Motion(org, rot)


def tr_card(rng, tid, motion, spelling='12'):
    '''Spell a motion as a TR card.  Spellings: 12, 13 (m=1), star (degrees),
    9-j (explicit J for nothing... all nine given), 6-rows, 6-cols, 3 (origin
    only, for pure translations).'''
    bmat = motion.b
    org = [float(v) for v in motion.o]
    flat = [float(v) for v in bmat.reshape(9)]
    if spelling == '12':
        return M.TrCard(tid, org, flat, motion=motion)
    if spelling == '13':
        return M.TrCard(tid, org, flat, mflag=1, motion=motion)
    if spelling == 'star':
        degs = [math.degrees(math.acos(max(-1.0, min(1.0, v)))) for v in flat]
        true_b = np.array([math.cos(math.radians(d)) for d in degs]).reshape(3, 3)
        return M.TrCard(tid, org, degs, starred=True,
                        motion=Motion(org, true_b))
    if spelling == '3':
        return M.TrCard(tid, org, [], motion=Motion(org, np.eye(3)))
    if spelling == '6-rows':
        return M.TrCard(tid, org, flat[:6], motion=motion)
    if spelling == '6-cols':
        ent = [flat[0], flat[1], None, flat[3], flat[4], None, flat[6],
               flat[7], None]
        return M.TrCard(tid, org, ent, motion=motion)
    if spelling == '5':
        ent = [flat[0], flat[1], flat[2], flat[3], None, None, flat[6], None,
               None]
        return M.TrCard(tid, org, ent, motion=motion)
    if spelling.startswith('6-rows-') or spelling.startswith('6-cols-'):
        # two rows / columns given, the third (possibly the middle one) J'd
        keep = [int(ch) - 1 for ch in spelling[-2:]]
        ent = [None] * 9
        for i in range(3):
            for j in range(3):
                sel = i if 'rows' in spelling else j
                if sel in keep:
                    ent[3 * i + j] = flat[3 * i + j]
        return M.TrCard(tid, org, ent, motion=motion)
    if spelling.startswith('5-r'):
        # one full row i and one full column j ("5-r2c3")
        row, col = int(spelling[3]) - 1, int(spelling[5]) - 1
        ent = [None] * 9
        for k in range(3):
            ent[3 * row + k] = flat[3 * row + k]
            ent[3 * k + col] = flat[3 * k + col]
        return M.TrCard(tid, org, ent, motion=motion)
    if spelling == '13-jumps':
        # all thirteen positions with J for entries that are left to the
        # completion rules (third vector) and m = 1
        ent = flat[:6] + [None, None, None]
        return M.TrCard(tid, org, ent, mflag=1, motion=motion)
    raise ValueError(spelling)


def tr_spec(rng, motion, form):
    '''Spell a motion as an inline cell transformation.  Forms: inline3
    (translation only), inline12, inline13 (m=1 appended), star (degrees).'''
    org = [float(v) for v in motion.o]
    flat = [float(v) for v in motion.b.reshape(9)]
    if form == 'inline3':
        return M.TrSpec(origin=org, entries=[], motion=Motion(org, np.eye(3)))
    if form == 'inline12':
        return M.TrSpec(origin=org, entries=flat, motion=motion)
    if form == 'inline13':
        return M.TrSpec(origin=org, entries=flat + [1], motion=motion)
    if form == 'inline3-shorthand':
        # a displacement written with the multiply / interpolate shorthand
        base = rng.choice([1.0, 2.0, -1.5, 0.5])
        kind = rng.choice(['m', 'i', 'ilog', 'mixed'])
        if kind == 'm':
            fac = rng.choice([2, 0.5, -1])
            vals = [base, base * fac, base * fac * fac]
            # (the multiplier is a real number: any Fortran spelling)
            spell = [f'{fac}m', f'{fac}d0m', f'{fac}e0m', f'{fac}D+0M']
            atoms = [M.fnum(base), rng.choice(spell), rng.choice(spell)]
        elif kind == 'i':
            step = rng.choice([1.0, 0.5, -2.0])
            vals = [base, base + step, base + 2 * step]
            atoms = [M.fnum(base), rng.choice(['i', '1i', 'I']),
                     M.fnum(base + 2 * step)]
        elif kind == 'ilog':
            vals = [abs(base), 2 * abs(base), 4 * abs(base)]
            atoms = [M.fnum(abs(base)), rng.choice(['ilog', '1ilog', '1log']),
                     M.fnum(4 * abs(base))]
        else:
            vals = [base, base, 3 * base]
            atoms = [M.fnum(base), 'r', '3m']
        spec = M.TrSpec(origin=vals, entries=[],
                        motion=Motion(vals, np.eye(3)))
        spec.raw_atoms = atoms
        return spec
    if form.startswith('inline-'):
        # abbreviated matrices with J placeholders; the completion is unique
        ent = list(flat)
        if form == 'inline-6j-rows':
            miss = rng.randrange(3)
            for k in range(3):
                ent[3 * miss + k] = None
        elif form == 'inline-6j-cols':
            miss = rng.randrange(3)
            for k in range(3):
                ent[3 * k + miss] = None
        elif form == 'inline-5j':
            row, col = rng.randrange(3), rng.randrange(3)
            ent = [v if (k // 3 == row or k % 3 == col) else None
                   for k, v in enumerate(flat)]
        spec = M.TrSpec(origin=org, entries=ent, motion=motion)
        spec.jump_runs = rng.random() < 0.5      # write 3j instead of j j j
        return spec
    if form == 'star':
        degs = [math.degrees(math.acos(max(-1.0, min(1.0, v)))) for v in flat]
        true_b = np.array([math.cos(math.radians(d)) for d in degs]).reshape(3, 3)
        return M.TrSpec(origin=org, entries=degs, starred=True,
                        motion=Motion(org, true_b))
    raise ValueError(form)
