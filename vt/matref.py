'''Reference for materials: my own periodic table, ZAID splitting, Fortran
number reading, expected composition of a (material card, density) pair.'''
import re

SYMBOLS = ('H HE LI BE B C N O F NE NA MG AL SI P S CL AR K CA SC TI V CR MN '
           'FE CO NI CU ZN GA GE AS SE BR KR RB SR Y ZR NB MO TC RU RH PD AG '
           'CD IN SN SB TE I XE CS BA LA CE PR ND PM SM EU GD TB DY HO ER TM '
           'YB LU HF TA W RE OS IR PT AU HG TL PB BI PO AT RN FR RA AC TH PA U '
           'NP PU AM CM BK CF ES FM MD NO LR RF DB SG BH HS MT DS RG CN NH FL '
           'MC LV TS OG').split()
assert len(SYMBOLS) == 118

_FORTRAN = re.compile(r'^([-+]?(?:[0-9]+\.?[0-9]*|\.[0-9]+))'
                      r'(?:[eEdD]([-+]?[0-9]+)|([-+][0-9]+))?$')


def fortran_float(text):
    '''Value of a number in any spelling MCNP accepts (1.5, 1.5e0, 1.5+0,
    .15d1 ...).'''
    match = _FORTRAN.match(text.strip())
    if not match:
        raise ValueError(f'not a Fortran number: {text!r}')
    mant, exp1, exp2 = match.groups()
    exp = exp1 if exp1 is not None else exp2
    if exp is None:
        return float(mant)
    # let float() do the (correctly rounded) decimal conversion
    return float(f'{mant}e{int(exp)}')


def nuclide_name(zaid):
    '''TRIPOLI-4 nuclide name for an MCNP ZAID (library suffix ignored).'''
    head = zaid.split('.')[0]
    num = int(head)
    znum, anum = divmod(num, 1000)
    sym = SYMBOLS[znum - 1]
    return sym + ('-NAT' if anum == 0 else str(anum))


def parse_comp_name(name):
    '''"m3_-2.7" -> (3, -2.7); "m0" -> (0, None).'''
    if name == 'm0':
        return 0, None
    match = re.match(r'^m(\d+)_(.+)$', name)
    if not match:
        return None
    try:
        return int(match.group(1)), fortran_float(match.group(2))
    except ValueError:
        return None
