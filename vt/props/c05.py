'''C05 - universes and FILL: points are located through the hierarchy.'''
from .. import model as M
from .. import gen_univ, gen_mix
from ..judge import convert_deck, crash_violation, region_agreement, summarise

ID = 'C05'
UPSTREAM_DECKS = True
LEVEL = 'exploration'
RULE = ('decks with universes nested to depth 1-4, fan-out 2-3 cells per '
        'universe, universes reused with different and with the same '
        'transformation, every fill-transformation spelling (number, inline '
        '3/12, starred, none + container TRCL, both), filler cells with own '
        'TRCL / #n / unions, universes larger than their container; distinct '
        '= distinct (surface kinds, per-cell universe/fill/TRCL pattern); '
        'non-trivial = at least two provenance chains with judged points and '
        'at least 500 judged probes')
ASSUMPTIONS = [
    'a point in a filled cell is expressed in the frame of the filling '
    'universe: the fill transformation if present, else the container\'s '
    'TRCL, else the container\'s frame (MCNP manual, FILL card)',
    'volume comments list (filler, container) pairs innermost first',
    'surface senses of mcnp_ref; TRIPOLI-4 conventions of vt/t4eval.py; '
    'TatSu shim',
]
ANCHORS = ['pot_fill', 'cell_transform', 'pot_transform', 'inline_cells',
           'parse_fill_kw', 'by_universe', 'convert_cellref',
           'compose_transform']
REQUIRED_REACH = ['CellConversion.pot_fill', 'CellConversion.cell_transform',
                  'CellInlining.py:inline_cells',
                  'ParseMCNPCell.parse_fill_kw']

_PER = {'quick': 14, 'thorough': 900}
_PER_MIX = {'quick': 3, 'thorough': 150}


def attach_monitors():
    from .. import monitors
    monitors.attach_contracts()
    monitors.attach_cache_events()


def monitor_counts():
    from .. import monitors
    return dict(monitors.COUNTS)


def plan(tier):
    return [(fam, _PER[tier]) for fam in gen_univ.FAMILIES] + \
        [(f'mix:{fam}', _PER_MIX[tier]) for fam in gen_mix.FAMILIES] + \
        [('data-card-params', 3)]


def build_data_cards(case):
    '''U and FILL given as data cards (one entry per cell) instead of cell
    keywords: MCNP accepts every cell parameter in both places.'''
    import numpy as np
    from ..decks import WORLD_SURF
    rng = case.rng
    deck = M.Deck('C05 data-card-params')
    deck.world = 12.0
    rad = round(rng.uniform(3, 5), 3)
    deck.surfs += [M.Surf(1, 'so', [rad]),
                   M.Surf(2, rng.choice(['px', 'py', 'pz']),
                          [round(rng.uniform(-1, 1), 3)]),
                   M.Surf(WORLD_SURF, 'so', [12.0])]
    deck.cells += [
        M.Cell(1, mat=0, geom=M.S(-1), imp={'n': '1'}, fill=M.Fill(universe=4)),
        M.Cell(2, mat=1, rho='-1.5', geom=M.AND(M.S(1), M.S(-WORLD_SURF)),
               imp={'n': '1'}),
        M.Cell(3, mat=0, geom=M.S(WORLD_SURF), imp={'n': '0'}),
        M.Cell(10, mat=2, rho='-2.5', geom=M.S(-2), imp={'n': '1'}, u=4),
        M.Cell(11, mat=3, rho='-3.5', geom=M.S(2), imp={'n': '1'}, u=4)]
    for mid in (1, 2, 3):
        deck.mats.append(M.Material(mid, [('13027', '1')]))
    which = rng.choice([('u',), ('u', 'fill'), ('fill',)])
    deck.params_on_data_cards = which
    deck.hints = [np.zeros(3)]
    deck.tags.add('c05.data-card-params:' + '+'.join(which))
    return deck


def build(case):
    if case.family == 'data-card-params':
        return build_data_cards(case)
    if case.family.startswith('mix:'):
        return gen_mix.build(case.rng, case.family[4:])
    return gen_univ.build(case.rng, case.family)


def run(case, ctx):
    from ..core import Outcome
    out = Outcome()
    deck = build(case)
    out.tags |= deck.tags
    out.structure = gen_mix.structure_of(deck) \
        if case.family.startswith(('mix:', 'data-card')) \
        else gen_univ.structure_of(deck)
    run_ = convert_deck(case, ctx, out, deck)
    if not run_.ok:
        crash_violation(out, run_, mech='cell-parameters-on-data-cards-ignored'
                        if case.family == 'data-card-params' else None)
        return out
    res = region_agreement(case, ctx, out, deck, run_, n_uniform=2500)
    if res is None:
        return out
    sides, mism, pts, t4 = res
    chains = {k for lab in set(sides.expected(pts[:2500]))
              for k in sides.labels.back[lab] if k[0] == 'c'}
    out.counters['chains_with_points'] += len(chains)
    for k in chains:
        out.counters[f'chains_of_depth_{len(k[1])}'] += 1
    out.nontrivial = len(chains) >= 2 and out.judged >= 500
    out.sample = {'cells': [' '.join(M.cell_atoms(deck, c))
                            for c in deck.cells[:5]],
                  'volu_comments': sorted({v.comment for v in t4.volus.values()
                                           if v.comment})[:4],
                  'probes': int(len(pts))}
    if mism:
        mech = 'cell-parameters-on-data-cards-ignored' \
            if case.family == 'data-card-params' else None
        out.violation('hierarchy', summarise(mism), mech=mech)
    return out
