'''C05 - universes and FILL: points are located through the hierarchy.'''
from .. import model as M
from .. import gen_univ, gen_mix
from ..judge import convert_deck, crash_violation, region_agreement, summarise

ID = 'C05'
UPSTREAM_DECKS = True
LEVEL = 'exploration'
RULE = ('decks with universes nested to depth 1-4, fan-out 2-3 cells per '
        'universe, universes reused with different and with the same '
        'transformation, every fill-transformation spelling (number, inline '
        '3/12, starred, none + container TRCL, both), filler cells with own '
        'TRCL / #n / unions, universes larger than their container; distinct '
        '= distinct (surface kinds, per-cell universe/fill/TRCL pattern); '
        'non-trivial = at least two provenance chains with judged points and '
        'at least 500 judged probes')
ASSUMPTIONS = [
    'a point in a filled cell is expressed in the frame of the filling '
    'universe: the fill transformation if present, else the container\'s '
    'TRCL, else the container\'s frame (MCNP manual, FILL card)',
    'volume comments list (filler, container) pairs innermost first',
    'surface senses of mcnp_ref; TRIPOLI-4 conventions of vt/t4eval.py; '
    'TatSu shim',
]
ANCHORS = ['pot_fill', 'cell_transform', 'pot_transform', 'inline_cells',
           'parse_fill_kw', 'by_universe', 'convert_cellref',
           'compose_transform']
REQUIRED_REACH = ['CellConversion.pot_fill', 'CellConversion.cell_transform',
                  'CellInlining.py:inline_cells',
                  'ParseMCNPCell.parse_fill_kw']

_PER = {'quick': 14, 'thorough': 900}
_PER_MIX = {'quick': 3, 'thorough': 150}


def attach_monitors():
    from .. import monitors
    monitors.attach_contracts()
    monitors.attach_cache_events()


def monitor_counts():
    from .. import monitors
    return dict(monitors.COUNTS)


def plan(tier):
    return [(fam, _PER[tier]) for fam in gen_univ.FAMILIES] + \
        [(f'mix:{fam}', _PER_MIX[tier]) for fam in gen_mix.FAMILIES]


def build(case):
    if case.family.startswith('mix:'):
        return gen_mix.build(case.rng, case.family[4:])
    return gen_univ.build(case.rng, case.family)


def run(case, ctx):
    from ..core import Outcome
    out = Outcome()
    deck = build(case)
    out.tags |= deck.tags
    out.structure = gen_mix.structure_of(deck) \
        if case.family.startswith('mix:') else gen_univ.structure_of(deck)
    run_ = convert_deck(case, ctx, out, deck)
    if not run_.ok:
        crash_violation(out, run_)
        return out
    res = region_agreement(case, ctx, out, deck, run_, n_uniform=2500)
    if res is None:
        return out
    sides, mism, pts, t4 = res
    chains = {k for lab in set(sides.expected(pts[:2500]))
              for k in sides.labels.back[lab] if k[0] == 'c'}
    out.counters['chains_with_points'] += len(chains)
    for k in chains:
        out.counters[f'chains_of_depth_{len(k[1])}'] += 1
    out.nontrivial = len(chains) >= 2 and out.judged >= 500
    out.sample = {'cells': [' '.join(M.cell_atoms(deck, c))
                            for c in deck.cells[:5]],
                  'volu_comments': sorted({v.comment for v in t4.volus.values()
                                           if v.comment})[:4],
                  'probes': int(len(pts))}
    if mism:
        out.violation('hierarchy', summarise(mism))
    return out
