'''C01 - cell regions: every point stays in the volume of the cell that owns
it.'''
from .. import model as M
from .. import gen_cells
from ..judge import convert_deck, crash_violation, region_agreement, summarise

ID = 'C01'
UPSTREAM_DECKS = True
LEVEL = 'exploration'
RULE = ('universe-free decks of 3-12 surfaces and 3-13 cells per family '
        '(pure intersections; unions with the largest pure intersection '
        'first/last/absent; nesting to depth 4; #() over unions; #n chains; '
        'partition decks closed by the all-complement cell; repeated '
        'surfaces; s and -s in one intersection / every / one union branch; '
        'multi-surface leaves in unions; shared surfaces; imp=0 cells in the '
        'middle); distinct = distinct (surface kinds, expression skeletons); '
        'non-trivial = at least 3 cells with a non-empty reference region '
        'and at least 500 judged probes')
ASSUMPTIONS = [
    'MCNP cell semantics: blank = intersection binds tighter than colon = '
    'union, #n = complement of cell n, #( ) = complement of the expression',
    'surface senses of mcnp_ref; TRIPOLI-4 conventions of vt/t4eval.py; '
    'TatSu shim',
    'probe offset 1e-3: thinner discrepancies are invisible',
]
ANCHORS = ['pot_complement', 'pot_optimise', 'pot_to_t4_cell', 'pot_flag',
           'pot_expand_surfs', 'remove_empty_volumes', 'remove_unused_volumes',
           'conv_equa', 'conv_union_helpers', 'largestPureIntersectionNode',
           'GeomExpression.inverse', 'VolumeT4.__str__', 'writeT4Geometry']
REQUIRED_REACH = ['CellConversion.pot_complement', 'CellConversion.pot_optimise',
                  'CellConversion.pot_to_t4_cell',
                  'CellConversion.conv_union_helpers',
                  'ConstructVolumeT4.py:remove_empty_volumes',
                  'ConstructVolumeT4.py:remove_unused_volumes',
                  'semantics.py:GeomExpression.inverse']

_PER = {'quick': 22, 'thorough': 1500}


def plan(tier):
    return [(fam, _PER[tier]) for fam in gen_cells.FAMILIES] + \
        [('many-operands', 4 if tier == 'quick' else 12)]


def build_many(case, count=None):
    '''N slab cells and the usual "everything else" cell #1 #2 ... #N: one
    flat expression with N operands (plus variants: one long intersection,
    one long union).'''
    rng = case.rng
    count = count or [60, 250, 600, 1000][case.index % 4]
    deck = M.Deck(f'C01 many-operands {count}')
    deck.world = 12.0
    width = 12.0 / count
    for k in range(count + 1):
        deck.surfs.append(M.Surf(k + 1, 'px', [round(-6.0 + k * width, 6)]))
    form = rng.choice(['slabs', 'slabs', 'union'])
    if form == 'slabs':
        for k in range(1, count + 1):
            deck.cells.append(M.Cell(k, mat=1 + k % 3, rho=f'-{1 + k % 3}.5',
                                     geom=M.AND(M.S(k), M.S(-(k + 1)),
                                                M.S(-WORLD)),
                                     imp={'n': '1'}))
        rest = M.AND(*[M.CELLC(k) for k in range(1, count + 1)], M.S(-WORLD))
    else:
        # even slabs as one union of intersections, odd ones as the rest
        arms = [M.AND(M.S(k), M.S(-(k + 1))) for k in range(1, count + 1, 2)]
        deck.cells.append(M.Cell(1, mat=1, rho='-1.5',
                                 geom=M.AND(M.OR(*arms), M.S(-WORLD)),
                                 imp={'n': '1'}))
        rest = M.AND(M.CELLC(1), M.S(-WORLD))
    deck.cells.append(M.Cell(count + 5, mat=2, rho='-2.5', geom=rest,
                             imp={'n': '1'}))
    deck.surfs.append(M.Surf(WORLD, 'so', [12.0]))
    deck.cells.append(M.Cell(count + 6, mat=0, geom=M.S(WORLD),
                             imp={'n': '0'}))
    for mat in (1, 2, 3):
        deck.mats.append(M.Material(mat, [('13027', '1')]))
    deck.tags.add(f'c01.many-operands.{count}')
    deck.operands = count
    return deck


WORLD = 5000


def build(case):
    if case.family == 'many-operands':
        return build_many(case)
    return gen_cells.build(case.rng, case.family)


def classify_crash(deck, run_):
    if run_.exc_type == 'RecursionError' and getattr(deck, 'operands', 0) >= 400:
        return 'recursion-depth-many-operands'
    if ('compl.cell-in-expr' in deck.tags and run_.exc_type == 'AttributeError'
            and run_.exc_where.endswith('semantics.py:inverse')):
        return 'cellcompl-inside-exprcompl'
    return None


def all_cells_empty(case, deck):
    import numpy as np
    reference = M.Reference(deck)
    pts = np.random.default_rng(case.rng.getrandbits(60)).uniform(
        -deck.world, deck.world, (6000, 3))
    return not any(reference.locate(pts))


def run(case, ctx):
    from ..core import Outcome
    out = Outcome()
    deck = build(case)
    out.tags |= deck.tags
    out.structure = gen_cells.structure_of(deck) \
        if case.family != 'many-operands' else deck.title
    run_ = convert_deck(case, ctx, out, deck)
    if not run_.ok:
        if run_.exc_type == 'ValueError' and 'max()' in run_.exc_msg and \
                all_cells_empty(case, deck):
            # a deck none of whose live cells holds a point has no output to
            # judge (the converter stops for lack of volumes)
            out.skipped = 'all-cells-empty'
            return out
        crash_violation(out, run_, mech=classify_crash(deck, run_))
        return out
    res = region_agreement(case, ctx, out, deck, run_, n_uniform=1500)
    if res is None:
        return out
    sides, mism, pts, t4 = res
    live = {c.id for c in deck.cells if not deck.importance_zero(c)}
    for vid, vol in t4.volus.items():
        out.counters['volume_ids_checked'] += 1
        if not vol.fictive and vid not in live:
            out.violation('foreign-volume', f'non-virtual VOLU {vid} is not a '
                          'cell with non-zero importance')
    nonempty = len({k for lab in set(sides.expected(pts[:1500]))
                    for k in sides.labels.back[lab]})
    out.nontrivial = nonempty >= 3 and out.judged >= 500
    out.counters['cells_with_points'] += nonempty
    out.sample = {'cells': [' '.join(M.cell_atoms(deck, c))
                            for c in deck.cells[:4]],
                  'n_cells': len(deck.cells), 'n_surfs': len(deck.surfs),
                  'probes': int(len(pts))}
    if mism:
        out.violation('region', summarise(mism))
    return out
