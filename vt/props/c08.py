'''C08 - every written file is structurally valid TRIPOLI-4 input.'''
from .. import model as M
from .. import gen_cells, gen_univ, gen_lat, gen_hostile, gen_mix
from . import c04, c10
from ..judge import convert_deck
from ..t4file import RULES

ID = 'C08'
LEVEL = 'exploration'
RULE = ('every file written for decks of the C01/C05/C06/C07 generators and '
        'of hostile families (patently empty filler cells shared by several '
        'containers, complement of a lattice cell, duplicate surface cards '
        'used with opposite signs, unused and flagged surfaces, cells that '
        'prune to nothing) under random combinations of --skip-deduplication, '
        '--skip-compositions, --skip-geomcomp, --skip-boundary-conditions, '
        '--always-inline-filling/-filled and --max-inline-score in {0, 0.5, '
        '1, 2, 1e9}; each file is re-read by an independent tokenizer and '
        'checked against the named rules of vt/t4file.py; distinct = distinct '
        '(deck structure, options); non-trivial = file with at least 3 VOLU '
        'lines')
ASSUMPTIONS = [
    'the block grammar of the written file as produced by the four writers '
    '(vt/t4file.py); rule names are listed in coverage.rule_checks with the '
    'number of individual checks performed',
    'a conversion that raises writes no file and is not judged here (C01-C07 '
    'and C17 judge exceptions)',
]
ANCHORS = ['writeT4Geometry', 'writeT4Composition', 'writeT4GeomComp',
           'writeT4BoundCond', 'VolumeT4.__str__', 'remove_empty_volumes',
           'remove_unused_volumes', 'remove_duplicate_surfaces',
           'renumber_surfaces', 'pot_optimise', 'convert_cellref']
REQUIRED_REACH = ['WriteT4Geometry.py:writeT4Geometry',
                  'WriteT4Composition.py:writeT4Composition',
                  'WriteT4GeomComp.py:writeT4GeomComp',
                  'WriteT4BoundCond.py:writeT4BoundCond',
                  'Duplicates.py:remove_duplicate_surfaces',
                  'ConstructVolumeT4.py:remove_empty_volumes']

SOURCES = {
    'c01': (gen_cells.build, gen_cells.FAMILIES),
    'c05': (gen_univ.build, gen_univ.FAMILIES),
    'c06': (gen_lat.build_rect, gen_lat.RECT_FAMILIES),
    'c07': (gen_lat.build_hex, gen_lat.HEX_FAMILIES),
    'hostile': (gen_hostile.build, gen_hostile.FAMILIES),
    'c04': (None, [f'{att}|{rot}' for att in ('surf-tr', 'trcl-num',
                                               'trcl-star', 'trcl-pair')
                   for rot in ('generic', 'flip-x', 'flip-y', 'flip-z',
                               'quarter', 'permutation')]),
    'mix': (gen_mix.build, gen_mix.FAMILIES),
    'mat': (None, ['mass-atomrho', 'mass-massrho', 'atom-atomrho',
                   'keywords', 'repeated-nuclide', 'same-value-spellings',
                   'two-densities']),
    # LIKE n BUT cards (their RHO= / MAT= overrides name compositions by
    # another path than ordinary cell cards)
    'like': (None, ['mat-rho', 'rho-only', 'chain', 'everything']),
}


class _Sub:
    def __init__(self, case, family):
        self.rng = case.rng
        self.family = family
        self.index = case.index
        self.tier = case.tier
        self.seed = case.seed

_PER = {'quick': {'c01': 3, 'c05': 4, 'c06': 3, 'c07': 2, 'hostile': 12,
                  'c04': 4, 'mat': 6, 'mix': 2, 'like': 6},
        'thorough': {'c01': 450, 'c05': 600, 'c06': 360, 'c07': 300,
                     'hostile': 1500, 'c04': 450, 'mat': 450, 'mix': 100,
                     'like': 300}}
FLAGS = ['--skip-deduplication', '--skip-compositions', '--skip-geomcomp',
         '--skip-boundary-conditions', '--always-inline-filling',
         '--always-inline-filled']
SCORES = ['0', '0.5', '1', '2', '1e9']


def plan(tier):
    out = [('upstream', 16)]
    for src, (_fn, fams) in SOURCES.items():
        for fam in fams:
            out.append((f'{src}:{fam}', _PER[tier][src]))
    return out


def random_options(rng):
    opts = [flag for flag in FLAGS if rng.random() < 0.3]
    if rng.random() < 0.6:
        opts += ['--max-inline-score', rng.choice(SCORES)]
    return opts


def build(case):
    src, fam = case.family.split(':', 1)
    if src == 'c04':
        deck = c04.build(_Sub(case, fam))
    elif src == 'mat':
        deck = c10.build(_Sub(case, fam))
    elif src == 'like':
        from . import c15
        deck = c15.build(_Sub(case, fam))
    else:
        deck = SOURCES[src][0](case.rng, fam)
    if case.rng.random() < 0.4:
        # flag some surfaces so that the boundary-condition writer runs
        cands = [s for s in deck.surfs if not s.is_macro]
        for sur in case.rng.sample(cands, min(len(cands), 2)):
            sur.flag = case.rng.choice(['*', '+'])
        deck.tags.add('bc.flags')
    renumber_outside(deck, case.rng)
    deck.cli = list(deck.cli) + random_options(case.rng)
    return deck


def renumber_outside(deck, rng):
    '''Give the zero-importance outside-world cell (900 in every generator)
    a number just above the largest other cell: helper volumes and generated
    cells are numbered from there on.'''
    if rng.random() < 0.5:
        return
    others = [c.id for c in deck.cells if c.id != 900]
    if not others or 900 not in [c.id for c in deck.cells]:
        return
    for cel in deck.cells:
        if any(ref_ == 900 for ref_ in M.expr_cellrefs(cel.geom)):
            return
    new_id = max(others) + rng.choice([1, 2, 2, 3, 4, 6, 9])
    if new_id in others:
        return
    deck.cell(900).id = new_id
    lat = [c for c in deck.cells if c.lat]
    deck.tags.add('outside-just-above')


def classify(rule, msg, deck):
    if rule == 'bc-defined-surf':
        return 'bc-dangling-surface'
    return None


def run_upstream(case, ctx):
    '''The upstream example decks with their own converter flags plus
    random options.'''
    from ..core import Outcome
    from .c13 import upstream_decks
    out = Outcome()
    structures = []
    for k, (name, text, opts) in enumerate(upstream_decks()):
        if k % 16 != case.index:
            continue
        extra = random_options(case.rng) if case.tier == 'thorough' or \
            case.rng.random() < 0.5 else []
        run_ = ctx.convert(text, opts + extra)
        if not run_.ok:
            out.counters['raised_not_judged'] += 1
            continue
        t4, probs = ctx.parse(run_)
        out.judged += len(t4.volus) + len(t4.surfs)
        out.counters['volu_lines'] += len(t4.volus)
        out.counters['surf_lines'] += len(t4.surfs)
        out.counters['upstream_files'] += 1
        structures.append(f'{name}:{extra}')
        seen = set()
        for rule, msg in probs:
            if rule not in seen:
                seen.add(rule)
                out.violation(rule, f'{name} {opts + extra}: {msg}',
                              options=opts + extra)
    out.structures = structures
    out.nontrivial = bool(structures)
    out.sample = {'family': 'upstream', 'files': structures[:3]}
    return out


def run(case, ctx):
    if case.family == 'upstream':
        return run_upstream(case, ctx)
    from ..core import Outcome
    out = Outcome()
    deck = build(case)
    out.tags |= deck.tags
    out.structure = (f'{case.family}|{len(deck.cells)}c{len(deck.surfs)}s|'
                     f'{sorted(deck.cli)}|{case.index}')
    run_ = convert_deck(case, ctx, out, deck)
    for flag in deck.cli:
        if flag.startswith('--'):
            out.counters[f'opt{flag}'] += 1
    if not run_.ok:
        out.counters['raised_not_judged'] += 1
        out.counters[f'raised:{run_.exc_type}'] += 1
        out.nontrivial = False
        out.judged = 0
        return out
    t4, probs = ctx.parse(run_)
    out.judged = sum(1 for _ in t4.volus) + len(t4.surfs)
    out.counters['volu_lines'] += len(t4.volus)
    out.counters['surf_lines'] += len(t4.surfs)
    out.counters['bc_entries'] += len(t4.bc)
    out.counters['geomcomp_lines'] += len(t4.geomcomp)
    out.counters['compositions'] += len(t4.compositions)
    out.nontrivial = len(t4.volus) >= 3
    out.sample = {'family': case.family, 'options': deck.cli,
                  'n_volu': len(t4.volus), 'n_surf': len(t4.surfs),
                  'first_volu': t4.volus[t4.volu_order[0]].raw
                  if t4.volu_order else None}
    seen = set()
    for rule, msg in probs:
        if rule in seen:
            continue
        seen.add(rule)
        out.violation(rule, msg, mech=classify(rule, msg, deck),
                      options=deck.cli)
    return out
