'''C04 - coordinate transformations move surfaces and cells by the MCNP rigid
motion.'''
import numpy as np

from .. import model as M
from .. import mcnp_ref as ref
from ..decks import probe_deck, WORLD_SURF
from ..gen_surf import (elementary, macrobody, motion_of_class, tr_card,
                        tr_spec, ROT_CLASSES)
from ..judge import convert_deck, crash_violation, region_agreement, summarise
from . import c03

ID = 'C04'
UPSTREAM_DECKS = True
LEVEL = 'exploration'
RULE = ('one transformed object per case: {attach point: TR number on the '
        'surface card, TRCL by number, inline TRCL with 3/12/13 entries, '
        '*TRCL in degrees, implicit surface 1000*cell+surface, a matrix given '
        'by one vector only with an object symmetric about it} x {rotation '
        'class: identity, translation, generic, axis permutation, 180-degree '
        'flips, quarter turn, 1e-12 off axis} with the surface kind '
        '(elementary incl. one-sheet cones, tori, SQ/GQ; macrobodies) and the '
        'TR spelling (12, 13, *TR, 6 by rows, 6 by columns, 5) drawn per case; '
        'distinct = distinct (attach, class, kind, spelling, rounded '
        'parameters); non-trivial = at least 200 judged probes')
ASSUMPTIONS = [
    'main = O + B^T aux with B1..B9 the cosines of the auxiliary axes in the '
    'main frame; starred forms in degrees (MCNP manual, TR card)',
    'the reference moves the *untransformed* object by that motion; a matrix '
    'given by one vector only (3 entries, or 9 positions with J) leaves the '
    'other two vectors to MCNP: it is judged with objects that are '
    'symmetric about the given auxiliary axis, whose image does not depend '
    'on the completion',
    'TRIPOLI-4 conventions of vt/t4eval.py; TatSu shim',
]
ANCHORS = ['Transformation.py:transformation', 'transformation_quad',
           'pot_transform', 'apply_trcl', 'normalize_transform',
           'normalize_matrix5', 'normalize_matrix6', 'adjust_matrix',
           'convert_cone', 'convert_torus', 'convert_plane',
           'parse_trcl_kw', 'forcad.py:transform_frame']
REQUIRED_REACH = ['Transformation.py:transformation', 'transformation_quad',
                  'CellConversion.pot_transform', 'normalize_matrix5',
                  'normalize_matrix6', 'ParseMCNPCell.parse_trcl_kw']

ATTACH = ['surf-tr', 'trcl-num', 'trcl-inline12', 'trcl-inline3',
          'trcl-inline13', 'trcl-star', 'implicit', 'trcl-pair',
          'trcl-filled', 'trcl-inline-jumps', 'implicit-filled']
KINDS = [('p', 'general'), ('p', 'axis+'), ('px', 'any'), ('s', 'any'),
         ('c/z', 'any'), ('cx', 'any'), ('k/y', 'plus'), ('kz', 'minus'),
         ('kx', 'two'), ('k/x', 'minus'), ('tz', 'circular'),
         ('ty', 'elliptic'), ('sq', 'ellipsoid'), ('sq', 'hyper1'),
         ('gq', 'cross'), ('x', 'cone-up'), ('z', 'cone-down'),
         ('box', 'rotated'), ('rpp', 'any'), ('rcc', 'rotated'),
         ('rhp', '15-irregular'), ('rec', '12-rotated'), ('trc', 'shrinking'),
         ('ell', 'neg-prolate'), ('wed', 'rotated'), ('arb', 'tetra')]
PAIR_KINDS = [('tz', 'circular'), ('ty', 'elliptic'), ('tx', 'circular'),
              ('sq', 'ellipsoid'), ('k/y', 'plus'), ('box', 'rotated'),
              ('rcc', 'rotated'), ('tz', 'elliptic')]
SPELLINGS = ['12', '13', 'star', '6-rows', '6-cols', '5', '6-rows-13',
             '6-rows-23', '6-cols-13', '6-cols-23', '5-r2c3', '5-r3c1',
             '5-r1c2', '13-jumps', '6-rows-12', '6-cols-12']

_PER = {'quick': 5, 'thorough': 300}


def attach_monitors():
    from .. import monitors
    monitors.attach_contracts()


def monitor_counts():
    from .. import monitors
    return dict(monitors.COUNTS)


VECTORS = ['+x', '-x', '+y', '-y', '+z', '-z', 'generic', 'near+x',
           'near-x', 'near-y']


def plan(tier):
    return [(f'{att}|{rot}', _PER[tier]) for att in ATTACH
            for rot in ROT_CLASSES] + \
        [(f'one-vector|{vec}', 16 if tier == 'quick' and
          (vec == 'generic' or vec.startswith('near')) else _PER[tier])
         for vec in VECTORS]


def build_one_column(case, vclass, vec):
    '''The one vector given as a column j of the matrix: the main axis j
    expressed in the auxiliary frame.  Judged with objects that are symmetric
    about that direction of the auxiliary frame: a plane perpendicular to
    it, a sphere centred on it.'''
    rng = case.rng
    j = rng.randrange(3)
    typed = [float(v) for v in vec]
    if rng.random() < 0.6 or vclass == 'generic':
        typed = [round(v, rng.choice([2, 2, 3, 4])) for v in typed]
        if rng.random() < 0.25:
            typed = [v * rng.choice([2.0, 0.5, 3.0]) for v in typed]
        if np.linalg.norm(typed) < 0.1:
            typed = [float(v) for v in vec]
    unit = np.array(typed) / np.linalg.norm(typed)
    helper = np.eye(3)[int(np.argmin(abs(unit)))]
    second = np.cross(unit, helper)
    second /= np.linalg.norm(second)
    third = np.cross(unit, second)
    main_in_aux = np.zeros((3, 3))          # rows: main axes in the aux frame
    main_in_aux[j], main_in_aux[(j + 1) % 3], main_in_aux[(j + 2) % 3] = \
        unit, second, third
    org = [round(rng.uniform(-3, 3), 3) for _ in range(3)]
    motion = ref.Motion(org, main_in_aux.T)
    dval = round(rng.uniform(-1.5, 1.5), 3)
    rad = round(rng.uniform(0.8, 2.0), 3)
    kind, params = rng.choice([
        ('p', list(typed) + [dval * float(np.linalg.norm(typed))]),
        ('so', [rad]),
        ('s', [float(v) for v in dval * unit] + [rad])])
    sur = M.Surf(1, kind, params)
    deck = probe_deck([sur], [M.S(-1), M.S(1)],
                      title=f'C04 one-vector column {vclass} {kind}')
    ent = [None] * 9
    for k in range(3):
        ent[3 * k + j] = typed[k]
    form = rng.choice(['card', 'inline'])
    if form == 'card':
        deck.trs = [M.TrCard(7, org, ent, motion=motion)]
        if rng.random() < 0.5:
            sur.tr = 7
        else:
            for cel in deck.cells:
                if cel.id != 900:
                    cel.trcl = M.TrSpec(number=7)
    else:
        for cel in deck.cells:
            if cel.id != 900:
                cel.trcl = M.TrSpec(origin=org, entries=list(ent),
                                    motion=motion)
    deck.tags.update({'attach.one-vector', 'vector.column', f'column.{j + 1}',
                      f'vector.{vclass}', f'kind.{kind}', f'form.{form}'})
    cen = motion.to_main(dval * unit)
    deck.hints = [cen + np.array(off) for off in
                  ((0, 0, 0), (1, 0, 0), (0, 1, 0), (0, 0, 1), (-1, -1, -1))]
    deck.case_motion = motion
    return deck


def build_one_vector(case, vclass):
    '''A matrix of which only one vector (row i: the auxiliary axis i in the
    main frame) is given.  The moved object is symmetric about that axis.'''
    rng = case.rng
    i = rng.randrange(3)
    if vclass == 'generic':
        vec = np.array([rng.gauss(0, 1) for _ in range(3)])
    elif vclass.startswith('near'):
        # within the cone where an implementation may switch helper vectors
        vec = np.zeros(3)
        k = 'xyz'.index(vclass[-1])
        vec[k] = 1.0 if vclass[4] == '+' else -1.0
        tilt = rng.choice([1e-9, 1e-5, 1e-3, 0.02, 0.04, 0.05])
        vec[(k + 1) % 3] = tilt * rng.choice([-1, 1])
        vec[(k + 2) % 3] = tilt * rng.uniform(-1, 1)
    else:
        vec = np.zeros(3)
        vec['xyz'.index(vclass[1])] = 1.0 if vclass[0] == '+' else -1.0
    vec = vec / np.linalg.norm(vec)
    if rng.random() < (0.5 if vclass == 'generic' else 0.3):
        return build_one_column(case, vclass, vec)
    # any proper rotation whose row i is the vector
    helper = np.eye(3)[int(np.argmin(abs(vec)))]
    second = np.cross(vec, helper)
    second /= np.linalg.norm(second)
    third = np.cross(vec, second)
    bmat = np.zeros((3, 3))
    bmat[i], bmat[(i + 1) % 3], bmat[(i + 2) % 3] = vec, second, third
    org = [round(rng.uniform(-3, 3), 3) for _ in range(3)]
    motion = ref.Motion(org, bmat)
    axis = 'xyz'[i]
    pos = round(rng.uniform(-1.5, 1.5), 3)
    rad = round(rng.uniform(0.8, 2.0), 3)
    kind, params = rng.choice([
        ('p' + axis, [pos]), ('c' + axis, [rad]), ('s' + axis, [pos, rad]),
        ('so', [rad]), ('k' + axis, [pos, round(rng.uniform(0.2, 1.5), 3)]),
        ('k' + axis, [pos, round(rng.uniform(0.2, 1.5), 3),
                      rng.choice([-1, 1])]),
        ('t' + axis, [pos if k == i else 0.0 for k in range(3)]
         + [round(rng.uniform(1.5, 2.5), 3), round(rng.uniform(0.3, 0.9), 3),
            round(rng.uniform(0.3, 0.9), 3)])])
    sur = M.Surf(1, kind, params)
    deck = probe_deck([sur], [M.S(-1), M.S(1)],
                      title=f'C04 one-vector {vclass} {kind}')
    ent = [None] * 9
    typed = [float(v) for v in vec]
    if rng.random() < 0.5:
        # as a user types it: three or four digits, or not normalised at
        # all - the vector fixes a direction, which is what the reference
        # uses (the rows of `bmat` are rebuilt from the typed vector)
        digits = rng.choice([3, 4, 4, 5])
        typed = [round(v, digits) for v in typed]
        if rng.random() < 0.2:
            scale = rng.choice([2.0, 0.5, 3.0])
            typed = [v * scale for v in typed]
        tvec = np.array(typed)
        if np.linalg.norm(tvec) > 0.1:
            tvec = tvec / np.linalg.norm(tvec)
            helper = np.eye(3)[int(np.argmin(abs(tvec)))]
            second = np.cross(tvec, helper)
            second /= np.linalg.norm(second)
            bmat[i], bmat[(i + 1) % 3], bmat[(i + 2) % 3] = \
                tvec, second, np.cross(tvec, second)
            motion = ref.Motion(org, bmat)
            deck.tags.add('vector.as-typed')
        else:
            typed = [float(v) for v in vec]
    ent[3 * i:3 * i + 3] = typed
    if i == 0 and rng.random() < 0.6:
        ent = ent[:3]               # the plain three-value form
    form = rng.choice(['card', 'inline'])
    if form == 'card':
        card = M.TrCard(7, org, ent, motion=motion)
        deck.trs = [card]
        if rng.random() < 0.5:
            sur.tr = 7
        else:
            for cel in deck.cells:
                if cel.id != 900:
                    cel.trcl = M.TrSpec(number=7)
    else:
        for cel in deck.cells:
            if cel.id != 900:
                cel.trcl = M.TrSpec(origin=org, entries=list(ent),
                                    motion=motion)
    deck.tags.update({'attach.one-vector', f'vector.{vclass}', f'row.{i + 1}',
                      f'kind.{kind}', f'form.{form}'})
    cen = motion.to_main(np.array([pos if k == i else 0.0 for k in range(3)]))
    deck.hints = [cen + np.array(off) for off in
                  ((0, 0, 0), (1, 0, 0), (0, 1, 0), (0, 0, 1), (-1, -1, -1))]
    deck.case_motion = motion
    return deck


def build(case):
    rng = case.rng
    attach, rot = case.family.split('|')
    if attach == 'one-vector':
        return build_one_vector(case, rot)
    if attach == 'trcl-inline3':
        rot = 'translation'
    kind, fam = KINDS[(case.index * 5 + rng.randrange(len(KINDS))) % len(KINDS)]
    if rot == 'near-flip' and case.index % 2 == 0:
        kind, fam = rng.choice([('tz', 'circular'), ('ty', 'elliptic'),
                                ('tx', 'circular'), ('tz', 'elliptic')])
    if rot.startswith('flip') and case.index % 3 == 1:
        # tori under half turns: the axis may end up antiparallel to z
        kind, fam = rng.choice([('tz', 'circular'), ('ty', 'elliptic'),
                                ('tx', 'circular'), ('tz', 'elliptic')])
    if rot == 'small-angle' and case.index % 2 == 0:
        # objects with an axis: a small tilt must not be rounded away
        kind, fam = rng.choice([('c/z', 'any'), ('cx', 'any'), ('c/y', 'any'),
                                ('rcc', 'rotated'), ('kz', 'minus'),
                                ('tz', 'circular'), ('px', 'any'),
                                ('rpp', 'any')])
    if attach == 'trcl-pair':
        kind, fam = PAIR_KINDS[(case.index + rng.randrange(len(PAIR_KINDS)))
                               % len(PAIR_KINDS)]
        if rot in ('identity', 'translation', 'near-axis', 'small-angle',
                   'near-flip'):
            rot = 'generic'
    macro = kind in ref.MACROBODIES
    params = macrobody(rng, kind, fam) if macro else elementary(rng, kind, fam)
    motion = motion_of_class(rng, rot)
    spelling = rng.choice(SPELLINGS)
    if spelling.startswith('5') and rot != 'generic':
        spelling = '12'
    if rot in ('identity', 'translation') and rng.random() < 0.3:
        spelling = '3'
    trs = []
    sur = M.Surf(1, kind, params)
    leaves = [M.S(-1), M.S(1)]
    if macro and attach not in ('implicit', 'implicit-filled'):
        leaves += c03.facet_leaves(kind, params)
    deck = probe_deck([sur], leaves, title=f'C04 {attach} {rot} {kind}')
    probe_cells = [c for c in deck.cells if c.id != 900]
    if attach in ('surf-tr', 'trcl-num') and rng.random() < 0.2:
        # displacement components that are zero written as J
        org = [float(v) for v in motion.o]
        for k in rng.sample(range(3), rng.randint(1, 2)):
            org[k] = 0.0
        motion = type(motion)(org, motion.b)
        jump_disp = True
    else:
        jump_disp = False
    if attach == 'surf-tr':
        trs.append(tr_card(rng, 7, motion, spelling))
        sur.tr = 7
        deck.tags.add(f'trspell.{spelling}')
    elif attach == 'trcl-num':
        trs.append(tr_card(rng, 7, motion, spelling))
        deck.tags.add(f'trspell.{spelling}')
        for cel in probe_cells:
            cel.trcl = M.TrSpec(number=7)
    elif attach == 'trcl-inline-jumps':
        # inline matrix in abbreviated form: J placeholders and nJ shorthand
        # between the parentheses
        form = rng.choice(['inline-6j-rows', 'inline-6j-cols', 'inline-5j',
                           'inline-6j-rows', 'inline-9', 'inline3-shorthand'])
        if form == 'inline3-shorthand':
            motion = tr_spec(rng, motion, form).motion
            spec_sh = tr_spec(rng, motion, 'inline3-shorthand')
            motion = spec_sh.motion
        if rot != 'generic' and form == 'inline-5j':
            form = 'inline-6j-rows'
        for cel in probe_cells:
            cel.trcl = spec_sh if form == 'inline3-shorthand' else \
                tr_spec(rng, motion, form)
    elif attach in ('trcl-inline12', 'trcl-inline3', 'trcl-inline13',
                    'trcl-star'):
        form = attach.split('-')[1]
        for cel in probe_cells:
            cel.trcl = tr_spec(rng, motion, form)
    elif attach == 'trcl-filled':
        # the moved cells are filled (FILL without a transformation of its
        # own): their content moves with them
        form = rng.choice(['num', 'inline12', 'star', 'inline13'])
        if form == 'num':
            trs.append(tr_card(rng, 7, motion, spelling))
            deck.tags.add(f'trspell.{spelling}')
        cen0 = np.array(params[0:3], dtype=float) if macro else np.zeros(3)
        nrm = np.array([rng.uniform(0.3, 1) * rng.choice([-1, 1])
                        for _ in range(3)])
        deck.surfs.append(M.Surf(50, 'p', [float(v) for v in nrm]
                                 + [float(nrm @ cen0) + rng.uniform(-.3, .3)]))
        for cel in probe_cells:
            cel.trcl = M.TrSpec(number=7) if form == 'num' else \
                tr_spec(rng, motion, form)
            cel.fill = M.Fill(universe=5)
        nmat = len(deck.mats)
        for k, leaf in enumerate((M.S(-50), M.S(50)), start=1):
            deck.mats.append(M.Material(nmat + k, [('13027', '1')]))
            deck.cells.append(M.Cell(50 + k, mat=nmat + k,
                                     rho=f'-{nmat + k}.5', geom=leaf,
                                     imp={'n': '1'}, u=5))
    elif attach == 'trcl-pair':
        # the same surface card used by two groups of cells under two
        # different transformations (rotations about the object's centre, so
        # that the moved objects differ in orientation only)
        if not macro and kind in ('tx', 'ty', 'tz', 's', 'sq'):
            for k in range(3):
                sur.params[k if kind != 'sq' else 7 + k] = 0.0
            motion = type(motion)([0.0, 0.0, 0.0], motion.b)
        second = motion_of_class(rng, 'generic' if rot != 'generic'
                                 else rng.choice(['generic', 'quarter']))
        second = type(motion)(motion.o, second.b)
        forms = [rng.choice(['inline12', 'star']) for _ in range(2)]
        extra_cells = []
        for cel in probe_cells:
            cel.trcl = tr_spec(rng, motion, forms[0])
            twin = cel.copy()
            twin.id = cel.id + 100
            twin.mat = cel.mat
            twin.trcl = tr_spec(rng, second, forms[1])
            extra_cells.append(twin)
        deck.cells[-1:-1] = extra_cells
        deck.second_motion = second
    elif attach in ('implicit', 'implicit-filled'):
        # cell 1 carries the TRCL; cells 2 and 3 refer to its moved surface
        trs.append(tr_card(rng, 7, motion, spelling))
        deck.tags.add(f'trspell.{spelling}')
        deck.cells[0].trcl = M.TrSpec(number=7)
        deck.cells[1].geom = M.AND(M.S(-1001), M.S(-WORLD_SURF))
        if rng.random() < 0.5:
            extra = M.Cell(3, mat=3, rho='-3.5',
                           geom=M.AND(M.S(1001), M.S(-WORLD_SURF)),
                           imp={'n': '1'})
            deck.cells.insert(2, extra)
            deck.mats.append(M.Material(3, [('13027', '1')]))
        else:
            # the moved surface is referred to with negative sense only
            deck.tags.add('implicit.negative-only')
        if rng.random() < 0.7:
            # the outer sphere does not carry the largest number below 1000
            # (the surfaces the converter generates are numbered from the
            # largest user number on: with 999 they start at 1001, the very
            # number the implicit reference uses)
            new_world = rng.choice([9, 50, 300, 998])
            for sur in deck.surfs:
                if sur.id == WORLD_SURF:
                    sur.id = new_world

            def swap(expr):
                if expr[0] == 's':
                    return ('s', new_world if expr[1] == WORLD_SURF
                            else expr[1], expr[2], expr[3])
                if expr[0] == '^':
                    return expr
                if expr[0] in ('#', 'g'):
                    return (expr[0], swap(expr[1]))
                return (expr[0],) + tuple(swap(sub) for sub in expr[1:])
            for cel in deck.cells:
                cel.geom = swap(cel.geom)
    if attach == 'implicit-filled':
        # the cell with the TRCL and the cells that refer to its moved
        # surface all belong to a universe, which is placed by a fill
        # transformation (or by the TRCL of the filled cell): the implicit
        # surface is moved a second time
        for cel in deck.cells:
            if cel.id != 900:
                cel.u = 5
        outer = motion_of_class(rng, rng.choice(['generic', 'quarter',
                                                 'translation', 'flip-z']))
        outer = type(outer)([round(rng.uniform(-1.5, 1.5), 3)
                             for _ in range(3)], outer.b)
        world = deck.surfs[-1].id
        deck.surfs.append(M.Surf(60, 'so', [9.0]))
        nmat = len(deck.mats)
        deck.mats += [M.Material(nmat + 1, [('13027', '1')]),
                      M.Material(nmat + 2, [('13027', '1')])]
        cont = M.Cell(10, mat=nmat + 1, rho='-7.5', geom=M.S(-60),
                      imp={'n': '1'}, fill=M.Fill(universe=5))
        how = rng.choice(['fill-inline', 'fill-star', 'fill-num',
                          'container-trcl'])
        if how == 'fill-num':
            trs.append(tr_card(rng, 8, outer, rng.choice(['12', 'star'])))
            cont.fill.tr = M.TrSpec(number=8)
        elif how == 'container-trcl':
            cont.trcl = tr_spec(rng, outer, 'inline12')
        else:
            cont.fill.tr = tr_spec(rng, outer, 'inline12'
                                   if how == 'fill-inline' else 'star')
        rest = M.Cell(11, mat=nmat + 2, rho='-8.5',
                      geom=M.AND(M.CELLC(10), M.S(-world)), imp={'n': '1'})
        deck.cells[-1:-1] = [cont, rest]
        deck.tags.add(f'implicit-filled.{how}')
    if jump_disp and trs:
        trs[0].origin = [None if v == 0.0 else v for v in trs[0].origin]
        deck.tags.add('tr.displacement-jumps')
    deck.trs = trs
    deck.tags.update({f'attach.{attach}', f'rot.{rot}', f'kind.{kind}',
                      f'{kind}.{fam}'})
    cen = motion.to_main(np.array(params[0:3], dtype=float)
                         if macro else np.zeros(3))
    deck.hints = [cen + np.array(off) for off in
                  ((0, 0, 0), (1, 0, 0), (0, 1, 0), (0, 0, 1), (-1, -1, -1))]
    deck.case_motion = motion
    return deck


def run(case, ctx):
    from ..core import Outcome
    out = Outcome()
    deck = build(case)
    out.tags |= deck.tags
    sur = deck.surfs[0]
    out.structure = (f'{case.family}:{sur.kind}:'
                     f'{[round(float(v), 2) for v in sur.params]}:'
                     f'{sorted(t for t in deck.tags if t.startswith("trspell"))}')
    run_ = convert_deck(case, ctx, out, deck)
    if not run_.ok:
        crash_violation(out, run_)
        return out
    unj = None
    if sur.kind == 'trc':
        mots = [deck.case_motion]
        if getattr(deck, 'second_motion', None) is not None:
            mots.append(deck.second_motion)

        def unj(pts, _par=sur.params, _mots=mots):
            mask = ref.trc_beyond_apex(_par, _mots[0].to_aux(pts))
            for mot in _mots[1:]:
                mask = mask | ref.trc_beyond_apex(_par, mot.to_aux(pts))
            return mask
    res = region_agreement(case, ctx, out, deck, run_, n_uniform=2000,
                           unjudged=unj)
    if res is None:
        return out
    sides, mism, pts, t4 = res
    out.nontrivial = out.judged >= 200
    out.sample = {'card': ' '.join(sur.atoms()),
                  'tr': [' '.join(t.atoms()) for t in deck.trs],
                  'cell1': ' '.join(M.cell_atoms(deck, deck.cells[0])),
                  'probes': int(len(pts))}
    if mism:
        det = summarise(mism)
        det['card'] = ' '.join(sur.atoms())
        out.violation('moved-object', det)
    return out
