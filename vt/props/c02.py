'''C02 - elementary surfaces keep their locus and their sense.'''
from .. import model as M
from ..decks import probe_deck
from ..gen_surf import ELEMENTARY_FAMILIES, elementary
from ..judge import convert_deck, crash_violation, region_agreement, summarise

ID = 'C02'
UPSTREAM_DECKS = True
LEVEL = 'exploration'
RULE = ('one generated surface card per case (every mnemonic x parameter '
        'family), deck = cells -s and +s clipped by a world sphere; distinct '
        '= distinct (mnemonic, family, rounded parameters); non-trivial = at '
        'least 50 judged probes and both cells non-empty in the reference')
ASSUMPTIONS = [
    'MCNP sense of a surface = sign of the card equation as written in the '
    'manual (mcnp_ref.elementary)',
    'TRIPOLI-4 surface conventions of vt/t4eval.py (Oracle/src/explainT4.cc)',
    'TatSu 5.24 + harness-side _is_protocol shim',
    'discrepancies thinner than the probe offset 1e-3 are invisible',
]
ANCHORS = ['convert_plane', 'convert_cylinder', 'convert_sphere',
           'convert_special_quadric', 'convert_quadric', 'convert_torus',
           'convert_cone', 'planeParamsFromPoints', 'number_items',
           'to_surface_mcnp']
REQUIRED_REACH = ['ConversionSurfaceMCNPToT4.py:convert_cone',
                  'ConversionSurfaceMCNPToT4.py:convert_torus',
                  'ConversionSurfaceMCNPToT4.py:convert_special_quadric',
                  'VectUtils.py:planeParamsFromPoints']

_PER = {'quick': 4, 'thorough': 300}


def attach_monitors():
    from .. import monitors
    monitors.attach_contracts()


def monitor_counts():
    from .. import monitors
    return dict(monitors.COUNTS)


def plan(tier):
    out = [('pair|near-6digits', _PER[tier]),
           ('pair|tori-rotated-about-centre', _PER[tier])]
    for kind, fams in ELEMENTARY_FAMILIES.items():
        for fam in fams:
            count = _PER[tier]
            if tier == 'quick' and fam in ('3pt-D0-flat', '3pt-D0-large',
                                           '3pt-far-small-D', '3pt-decimal-sweep'):
                # decided by rounding noise: one card in ten or twenty shows
                # a wrong tolerance, and a case costs a few milliseconds
                count = 60
            out.append((f'{kind}|{fam}', count))
    return out


def build(case):
    kind, fam = case.family.split('|')
    if kind == 'pair' and fam == 'tori-rotated-about-centre':
        # tori of equal radii about one centre that differ by their
        # orientation only (TR cards): their loci differ
        from .c13 import build_torus_pair
        return build_torus_pair(case.rng)
    if kind == 'pair':
        from .c13 import build_near_pairs
        return build_near_pairs(case.rng)
    rng = case.rng
    params = elementary(rng, kind, fam)
    sid = 1
    extra = []
    leaves_extra = []
    if rng.random() < 0.5:
        # free numbering and card order: the tested card has any number, the
        # numbers just above it belong to other cards, and the surface block
        # is not written in ascending order
        sid = rng.choice([1, 2, 7, 40, 120])
        for k in range(1, rng.randint(2, 3)):
            extra.append(M.Surf(sid + k, rng.choice(['px', 'py', 'pz']),
                                [rng.choice([-11.5, 11.5]) + 0.1 * k]))
            leaves_extra.append(M.AND(M.S(-(sid + k)), M.S(sid)))
    sur = M.Surf(sid, kind, params)
    deck = probe_deck([sur] + extra, [M.S(-sid), M.S(sid)] + leaves_extra,
                      title=f'C02 {kind} {fam}')
    if extra:
        rng.shuffle(deck.surfs)
        deck.tags.add('cards.unordered')
    deck.tested = sur
    deck.tags.update({f'kind.{kind}', f'{kind}.{fam}'})
    if kind == 'sq' and params[6] > 0:
        deck.tags.add('sq.poscentre')
    return deck


def run(case, ctx):
    from ..core import Outcome
    out = Outcome()
    deck = build(case)
    out.tags |= deck.tags
    sur = getattr(deck, 'tested', deck.surfs[0])
    out.structure = ';'.join(f'{s.kind}:{[round(float(v), 5) for v in s.params]}'
                             for s in deck.surfs[:6])
    run_ = convert_deck(case, ctx, out, deck)
    if not run_.ok:
        mech = None
        crash_violation(out, run_, mech=mech)
        return out
    res = region_agreement(case, ctx, out, deck, run_)
    if res is None:
        return out
    sides, mism, pts, t4 = res
    out.nontrivial = out.judged >= 50
    out.sample = {'card': ' '.join(sur.atoms()), 'probes': int(len(pts)),
                  'surf_lines': [s.raw for s in t4.surfs.values()][:3]}
    for srf in t4.surfs.values():
        out.counters['surf_fields_finite'] += len(srf.params)
    if mism:
        mech = None
        if 'sq.poscentre' in deck.tags:
            res2 = region_agreement(case, ctx, out, deck, run_,
                                    quirks=('sq_neg_poscentre',))
            if res2 is not None and not res2[1]:
                mech = 'sq-positive-centre-negated'
        out.violation('sense-or-locus', summarise(mism), mech=mech,
                      card=' '.join(sur.atoms()))
    return out
