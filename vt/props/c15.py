'''C15 - LIKE n BUT equals the explicit cell card it abbreviates.'''
import numpy as np

from .. import model as M
from .. import formats
from ..mcnp_ref import Motion
from ..gen_surf import rnd, motion_of_class, tr_card, tr_spec
from ..decks import WORLD_SURF
from ..judge import region_agreement, summarise

ID = 'C15'
UPSTREAM_DECKS = True
LEVEL = 'exploration'
RULE = ('decks with 2-6 LIKE n BUT cells overriding subsets of {mat, rho, u, '
        'fill (+transformation), trcl, imp}, chains LIKE-of-LIKE to depth 3, '
        'forward references, base cells with and without each keyword '
        'already present, keyword order and case variants; the deck is '
        'converted as written and with every LIKE card expanded explicitly; '
        'the two outputs must be equal (numeric tokens by value) and both are '
        'checked against the reference model; distinct = distinct cell '
        'cards; non-trivial = at least 2 LIKE cells, one of them overriding '
        '2 or more keywords or chained')
ASSUMPTIONS = [
    'LIKE n BUT copies every parameter of cell n (material, density, '
    'geometry, u, fill, trcl, imp, lat) and replaces the listed ones; a '
    'replaced TRCL replaces (does not compose with) the inherited one',
    'oracle R for the geometric side; canonical token equality for the '
    'metamorphic side',
]
ANCHORS = ['parse_one_cell', 'apply_but', 'parse_keywords', 'cellcard.py:split',
           'get_ast']
REQUIRED_REACH = ['ParseMCNPCell.parse_one_cell', 'ParseMCNPCell.apply_but',
                  'ParseMCNPCell.parse_keywords']
FAMILIES = ['trcl', 'mat-rho', 'rho-only', 'imp', 'u', 'fill', 'chain', 'forward',
            'everything', 'base-has-all', 'lattice-cli', 'implicit-of-copy']
_PER = {'quick': 16, 'thorough': 3000}

SLOTS = [(-5.0, -5.0, 0.0), (0.0, -5.0, 1.0), (5.0, -5.0, -1.0),
         (-5.0, 0.0, 1.0), (5.0, 0.0, 0.5), (-5.0, 5.0, -0.5),
         (0.0, 5.0, 0.3), (5.0, 5.0, 0.0), (0.0, 0.0, 5.0), (0.0, 0.0, -5.0)]


def plan(tier):
    return [(fam, _PER[tier]) for fam in FAMILIES]


def build_lattice_cli(case):
    '''A LIKE copy of a lattice cell whose ranges come from --lattice: the
    copy has ranges of its own on the command line.'''
    rng = case.rng
    deck = M.Deck('C15 lattice-cli')
    deck.world = 12.0
    for mid in range(1, 5):
        deck.mats.append(M.Material(mid, [('13027', '1')]))
    deck.surfs.append(M.Surf(701, 's', [rnd(rng, -0.1, 0.1), rnd(rng, -0.1, 0.1),
                                        0.0, rnd(rng, 0.3, 0.5)]))
    deck.cells.append(M.Cell(701, mat=1, rho='-1.5', geom=M.S(-701),
                             imp={'n': '1'}, u=7))
    deck.cells.append(M.Cell(702, mat=2, rho='-2.5', geom=M.S(701),
                             imp={'n': '1'}, u=7))
    px, py = rnd(rng, 1.2, 1.8), rnd(rng, 1.2, 1.8)
    x0, y0 = rnd(rng, -0.2, 0.2), rnd(rng, -0.2, 0.2)
    deck.surfs += [M.Surf(21, 'px', [x0 + px / 2]), M.Surf(22, 'px', [x0 - px / 2]),
                   M.Surf(23, 'py', [y0 + py / 2]), M.Surf(24, 'py', [y0 - py / 2])]

    def ranges():
        out = []
        for _ in range(2):
            low = rng.randint(-2, 0)
            out.append((low, low + rng.randint(1, 2)))
        return out
    r20 = ranges()
    r30 = ranges()
    while r30 == r20:
        r30 = ranges()
    fil = M.Fill(universe=7)
    fil.ranges = r20
    lat = M.Cell(20, mat=3, rho='-3.5',
                 geom=M.AND(M.S(-21), M.S(22), M.S(-23), M.S(24)),
                 imp={'n': '1'}, u=5, lat=1, fill=fil)
    lat.lat_info = M.LatticeTruth(1, [x0, y0, 0.0],
                                  [np.array([px, 0, 0]), np.array([0, py, 0])])
    new = lat.copy()
    new.id = 30
    new.like = 20
    new.u = 6
    new.but = ['u']
    if rng.random() < 0.5:
        new.mat = 4
        new.rho = '-4.5'
        new.but += ['mat', 'rho']
        rng.shuffle(new.but)
    new.fill = M.Fill(universe=7)
    new.fill.ranges = r30
    deck.cells += [lat, new]
    centres = [(-5.5, 0.0, 0.0), (5.5, 0.0, 0.5)]
    for k, (uni, cen) in enumerate(zip((5, 6), centres), start=1):
        deck.surfs.append(M.Surf(k, 's', list(cen) + [rnd(rng, 4.0, 5.0)]))
        deck.cells.append(M.Cell(k, mat=0, geom=M.S(-k), imp={'n': '1'},
                                 fill=M.Fill(universe=uni, tr=tr_spec(
                                     rng, Motion(list(cen)), 'inline3'))))
        for i in range(-3, 4):
            for j in range(-3, 4):
                deck.hints.append(np.array(cen) + [x0 + i * px, y0 + j * py,
                                                   rnd(rng, -1, 1)])
    deck.cli = ['--lattice', '20,' + ','.join(f'{a}:{b}' for a, b in r20),
                '--lattice', '30,' + ','.join(f'{a}:{b}' for a, b in r30)]
    deck.surfs.append(M.Surf(WORLD_SURF, 'so', [12.0]))
    deck.cells.append(M.Cell(90, mat=0, geom=M.AND(M.CELLC(1), M.CELLC(2),
                                                   M.S(-WORLD_SURF)),
                             imp={'n': '1'}))
    deck.cells.append(M.Cell(900, mat=0, geom=M.S(WORLD_SURF), imp={'n': '0'}))
    deck.cells.sort(key=lambda c: (c.u is not None, c.id))
    deck.tags.add('c15.lattice-cli')
    return deck


def build(case):
    if case.family == 'lattice-cli':
        return build_lattice_cli(case)
    rng = case.rng
    fam = case.family
    deck = M.Deck(f'C15 {fam}')
    deck.world = 12.0
    slots = SLOTS[:]
    rng.shuffle(slots)
    nmat = 5
    for mid in range(1, nmat + 1):
        deck.mats.append(M.Material(mid, [('13027', '1')]))
    # two small universes to fill with
    for uni, base in ((7, 700), (8, 800)):
        cen = [rnd(rng, -0.3, 0.3) for _ in range(3)]
        deck.surfs.append(M.Surf(base + 1, 's', cen + [rnd(rng, 0.5, 0.9)]))
        deck.cells.append(M.Cell(base + 1, mat=rng.randint(1, nmat),
                                 rho=f'-{rng.randint(1, 9)}.{rng.randint(1, 9)}',
                                 geom=M.S(-(base + 1)), imp={'n': '1'}, u=uni))
        deck.cells.append(M.Cell(base + 2, mat=rng.randint(1, nmat),
                                 rho=f'-{rng.randint(1, 9)}.{rng.randint(1, 9)}',
                                 geom=M.S(base + 1), imp={'n': '1'}, u=uni))
    # the base cell at the origin, moved to its slot by TRCL or not at all
    deck.surfs.append(M.Surf(1, rng.choice(['s', 'sq']), []))
    rad = rnd(rng, 1.2, 1.8)
    if deck.surfs[-1].kind == 's':
        deck.surfs[-1].params = [0.2, -0.1, 0.1, rad]
    else:
        deck.surfs[-1].params = [1 / rad**2, 1 / (0.8 * rad)**2,
                                 1 / (1.1 * rad)**2, 0, 0, 0, -1, 0.1, 0.0, -0.1]
    base = M.Cell(1, mat=1, rho='-2.7', geom=M.S(-1), imp={'n': '1'})
    if fam == 'imp' or rng.random() < 0.15:
        base.imp = rng.choice([{'n,p': '1'}, {'n': '1', 'p': '1'},
                               {'p,n': '2'}, {'n': '1'}])
    if fam == 'base-has-all' or rng.random() < 0.3:
        base.trcl = tr_spec(rng, Motion(list(slots[0])), 'inline3')
        if fam == 'base-has-all':
            base.fill = M.Fill(universe=7)
            base.imp = {'n': '2', 'p': '1'}
    level0 = [base]
    deck.cells.append(base)
    nlike = rng.randint(2, 6)
    cid = 1
    chainable = [base]
    like_cells = []
    for k in range(nlike):
        cid += 1
        if fam == 'chain' and like_cells:
            parent = like_cells[-1] if len(like_cells) < 3 else \
                rng.choice(chainable)
        else:
            parent = rng.choice(chainable) if rng.random() < 0.3 else base
        new = parent.copy()
        new.id = cid
        new.like = parent.id
        but = set()
        # always move it somewhere else
        mot = Motion(list(slots[k + 1]))
        if rng.random() < 0.4:
            rot = motion_of_class(rng, rng.choice(['generic', 'quarter',
                                                   'flip-z']))
            mot = Motion(list(slots[k + 1]), rot.b)
        form = rng.choice(['inline3', 'inline12', 'star', 'num'])
        if form == 'inline3':
            mot = Motion(list(slots[k + 1]))
        if form == 'num':
            tid = 10 + k
            deck.trs.append(tr_card(rng, tid, mot, '12'))
            new.trcl = M.TrSpec(number=tid)
        else:
            new.trcl = tr_spec(rng, mot, form)
        but.add('trcl')
        want = {'trcl': set(), 'mat-rho': {'mat', 'rho'}, 'rho-only': {'rho'},
                'imp': {'imp'},
                'u': set(), 'fill': {'fill'}, 'chain': set(),
                'forward': set(),
                'everything': {'mat', 'rho', 'imp', 'fill'},
                'base-has-all': set(), 'implicit-of-copy': set()}[fam]
        extra = set(want)
        for name in ('mat', 'rho', 'imp', 'fill'):
            if rng.random() < 0.25:
                extra.add(name)
        if 'mat' in extra:
            new.mat = rng.randint(1, nmat)
            if rng.random() < 0.2:
                # BUT MAT=0 turns the copy into a void cell
                new.mat = 0
                new.rho = None
                extra.discard('rho')
        if 'rho' in extra:
            new.rho = f'-{rng.randint(1, 9)}.{rng.randint(1, 9)}'
            roll = rng.random()
            if roll < 0.25:
                new.rho += '0' * rng.randint(1, 2)          # -1.50
            elif roll < 0.45:
                new.rho += rng.choice(['-1', 'd-1', 'E-1', 'e+1', '+1'])  # -6.5-1
        if int(new.mat) == 0:
            new.rho = None
            extra.discard('rho')
        if int(new.mat) != 0 and new.rho is None:
            new.rho = '-1.1'
            extra.add('rho')
        if 'imp' in extra and set(parent.imp) & {'n,p', 'p,n'}:
            # the copied cell groups the particle types (IMP:N,P=x): the BUT
            # list names them one by one, or in the other order
            val = rng.choice(['0', '0', '3'])
            new.imp = rng.choice([{'n': val, 'p': val},
                                  {'p,n' if 'n,p' in parent.imp else 'n,p':
                                   val},
                                  {'n': val, 'p': rng.choice(['0', '1'])}])
        elif 'imp' in extra and {'n', 'p'} <= set(parent.imp) and \
                rng.random() < 0.5:
            new.imp = {rng.choice(['n,p', 'p,n']): rng.choice(['0', '0', '2'])}
        elif 'imp' in extra:
            # per particle designator: the others are inherited
            new.imp = dict(parent.imp)
            new.imp['n'] = rng.choice(['0', '3', '1'])
            if rng.random() < 0.3:
                new.imp['p'] = rng.choice(['0', '1'])
        if 'fill' in extra:
            uni = rng.choice([7, 8])
            ftr = None
            if rng.random() < 0.6:
                fmot = Motion(np.array(slots[k + 1])
                              + [rnd(rng, -0.2, 0.2) for _ in range(3)],
                              motion_of_class(rng, 'generic').b)
                ftr = tr_spec(rng, fmot, rng.choice(['inline12', 'star']))
            new.fill = M.Fill(universe=uni, tr=ftr)
        but |= extra
        order = sorted(but)
        rng.shuffle(order)
        new.but = order
        new.but_ordered = rng.random() < 0.7
        deck.cells.append(new)
        level0.append(new)
        chainable.append(new)
        like_cells.append(new)
        deck.hints.append(np.array(slots[k + 1]))
    if fam == 'u':
        # LIKE inside universes: a second universe cell pair made by LIKE
        src = deck.cell(701)
        new = src.copy()
        new.id = 801 + 50
        new.like = 701
        new.u = 9
        new.mat = rng.randint(1, nmat)
        new.but = ['u', 'mat']
        src2 = deck.cell(702)
        new2 = src2.copy()
        new2.id = 802 + 50
        new2.like = 702
        new2.u = 9
        new2.but = ['u']
        deck.cells += [new, new2]
        # a cell no other LIKE card refers to (children copy the model)
        parents = {c.like for c in like_cells}
        tgt = next(c for c in reversed(like_cells) if c.id not in parents)
        tgt.fill = M.Fill(universe=9)
        if 'fill' not in tgt.but:
            tgt.but.append('fill')
    if fam == 'implicit-of-copy':
        # the copy is cell 1: its moved surface has the number 1001, which
        # another cell uses (a shell around the copy).  The numbers the
        # converter generates for moved surfaces start right above the
        # largest surface number (999): they must not land on 1001.
        idmap = {1: 8, 2: 1}
        for cel in deck.cells:
            cel.id = idmap.get(cel.id, cel.id)
            if cel.like is not None:
                cel.like = idmap.get(cel.like, cel.like)
        copy1 = deck.cell(1)
        mot = deck.motion_of(copy1.trcl)
        sur1 = deck.surf(1) if hasattr(deck, 'surf') else \
            next(s for s in deck.surfs if s.id == 1)
        cen = sur1.params[0:3] if sur1.kind == 's' else sur1.params[7:10]
        cmain = mot.to_main(np.array(cen, dtype=float))
        deck.surfs.append(M.Surf(31, 's', [float(v) for v in cmain] + [2.4]))
        shell = M.Cell(30, mat=rng.randint(1, nmat), rho='-3.3',
                       geom=M.AND(M.S(1001), M.S(-31)), imp={'n': '1'})
        deck.cells.append(shell)
        level0.append(shell)
    if fam == 'forward':
        # move a LIKE card before the card it refers to
        first = like_cells[0]
        deck.cells.remove(first)
        deck.cells.insert(deck.cells.index(deck.cell(first.like)), first)
    deck.hints.append(np.array(slots[0]) if base.trcl is not None
                      else np.zeros(3))
    deck.surfs.append(M.Surf(WORLD_SURF, 'so', [12.0]))
    rest = M.AND(*[M.CELLC(c.id) for c in level0], M.S(-WORLD_SURF))
    deck.cells.append(M.Cell(90, mat=0, geom=rest, imp={'n': '1'}))
    deck.cells.append(M.Cell(900, mat=0, geom=M.S(WORLD_SURF), imp={'n': '0'}))
    deck.tags.add(f'c15.{fam}')
    return deck


def run(case, ctx):
    from ..core import Outcome
    out = Outcome()
    deck = build(case)
    out.tags |= deck.tags
    like_text = M.render(deck)
    full_text = M.render(deck, expand_like=True)
    out.decks.append(('like', like_text, []))
    out.decks.append(('expanded', full_text, []))
    likes = [c for c in deck.cells if c.like is not None]
    out.structure = ';'.join(' '.join(M.cell_atoms(deck, c)) for c in likes)
    chained = any(deck.cell(c.like).like is not None for c in likes)
    out.nontrivial = len(likes) >= 2 and (chained or
                                          any(len(c.but) >= 2 for c in likes))
    run_like = ctx.convert(like_text, deck.cli)
    run_full = ctx.convert(full_text, deck.cli)
    out.counters['like_cells'] += len(likes)
    out.counters['chained_decks'] += 1 if chained else 0
    for cel in likes:
        for name in cel.but:
            out.counters[f'but.{name}'] += 1
    if not run_full.ok:
        # the explicit deck itself is rejected: nothing to compare with
        out.violation('explicit-deck-rejected', run_full.brief())
        return out
    if not run_like.ok:
        out.violation('like-deck-rejected', run_like.brief())
        return out
    out.judged += 1
    diff = formats.first_difference(run_full.output, run_like.output)
    if diff is not None:
        out.violation('like-differs-from-explicit', diff)
    res = region_agreement(case, ctx, out, deck, run_like, n_uniform=1500,
                           label='like deck')
    if res is not None and res[1]:
        out.violation('like-geometry', summarise(res[1]))
    out.sample = {'like_cards': [' '.join(M.cell_atoms(deck, c))
                                 for c in likes[:3]],
                  'expanded': [' '.join(M.cell_atoms(deck, c, expand_like=True))
                               for c in likes[:3]]}
    return out
