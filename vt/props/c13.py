'''C13 - de-duplication and inlining options never change the geometry.'''
import itertools

from .. import model as M
from .. import gen_cells, gen_univ, gen_lat, gen_hostile, gen_mix, monitors, \
    probes
from ..gen_surf import rnd, tr_card
from ..mcnp_ref import Motion
from ..decks import WORLD_SURF
from ..judge import convert_deck, crash_violation, region_agreement, summarise

ID = 'C13'
LEVEL = 'exploration'
RULE = ('decks of the C01/C05/C06/C07 generators plus decks with duplicate '
        'surface cards, duplicates created by transformations and '
        'near-duplicates differing in the last bit; each deck is converted '
        'with the default options and with K other combinations of '
        '--skip-deduplication x --always-inline-filling x '
        '--always-inline-filled x --max-inline-score in {0, 0.5, 1, 3, 1e9} '
        '(K = 12 random ones quick, all 39 thorough); every output is '
        'compared with the reference model at the same probe points '
        '(provenance key) and the composition name of every judged volume key '
        'must be the same in all outputs; the de-duplication contract '
        'evaluates every merged pair; distinct = distinct (deck structure); '
        'non-trivial = at least 5 option sets judged with 300+ probes')
ASSUMPTIONS = [
    'the reference model (oracle R) is the common yardstick: each option set '
    'must agree with it, hence with every other',
    'merged surfaces are compared on 96 random points by the independent '
    'evaluator (relative 1e-9)',
]
ANCHORS = ['remove_duplicate_surfaces', 'renumber_surfaces',
           'SurfaceT4.__eq__', 'SurfaceT4.__hash__', 'inline_cells',
           'compute_inlining_scores', 'pot_fill', 'inline_cells_worker']
REQUIRED_REACH = ['Duplicates.py:remove_duplicate_surfaces',
                  'Duplicates.py:renumber_surfaces',
                  'CellInlining.py:inline_cells_worker',
                  'SurfaceT4.py:SurfaceT4.__eq__']

SOURCES = {
    'c01': (gen_cells.build, ['inter', 'nested', 'partition', 'multi',
                              'contradiction']),
    'c05': (gen_univ.build, gen_univ.FAMILIES),
    'c06': (gen_lat.build_rect, ['ortho-2d', 'array-own', 'cli-single',
                                 'fill-rotation', 'skew-2d', 'lat-trcl']),
    'c07': (gen_lat.build_hex, ['regular-6', 'irregular-8']),
    'mix': (gen_mix.build, ['univ+rect', 'univ+hex', 'cells+univ', 'three',
                            'same-part-twice']),
    'dup': (None, ['cards', 'by-transform', 'near', 'hostile-opposite',
                   'hostile-many', 'empty-filler-shared',
                   'torus-rotated-same-centre', 'helper-plane-collision',
                   'near-6digits']),
}
_PER = {'quick': 2, 'thorough': 60}
FLAGS = ['--skip-deduplication', '--always-inline-filling',
         '--always-inline-filled']
SCORES = ['0', '0.5', '1', '3', '1e9']


def attach_monitors():
    monitors.attach_dedup()


def monitor_counts():
    return dict(monitors.COUNTS)


UPSTREAM_CHUNKS = 16


def upstream_decks():
    import glob
    import os
    import shlex
    from .. import shim
    out = []
    pattern = os.path.join(shim.REPO, 't4_geom_convert', 'IntegrationTests',
                           'data', '*.imcnp')
    for path in sorted(glob.glob(pattern)):
        enc = 'latin1' if 'latin1' in path else 'utf-8'
        with open(path, encoding=enc) as fil:
            text = fil.read()
        opts = []
        for line in text.split('\n')[:50]:
            pos = line.find('converter-flags:')
            if pos != -1:
                opts = shlex.split(line[pos + len('converter-flags:'):])
        if '-e' in opts:
            k = opts.index('-e')
            del opts[k:k + 2]
        out.append((os.path.basename(path), text, opts))
    return out


def plan(tier):
    out = [('upstream', UPSTREAM_CHUNKS)]
    for src, (_fn, fams) in SOURCES.items():
        for fam in fams:
            out.append((f'{src}:{fam}', _PER[tier] * (3 if src == 'dup' else 1)))
    return out


def option_sets():
    sets = []
    for nflag in range(len(FLAGS) + 1):
        for flags in itertools.combinations(FLAGS, nflag):
            for score in SCORES:
                sets.append(list(flags) + ['--max-inline-score', score])
    return sets


def build_dup(rng, fam):
    if fam == 'hostile-opposite':
        return gen_hostile.build(rng, 'dedup-opposite')
    if fam == 'hostile-many':
        return gen_hostile.build(rng, 'dedup-many')
    if fam in ('empty-filler-shared', 'helper-plane-collision'):
        return gen_hostile.build(rng, fam)
    if fam == 'torus-rotated-same-centre':
        return build_torus_pair(rng)
    if fam == 'near-6digits':
        return build_near_pairs(rng)
    deck = M.Deck(f'C13 dup {fam}')
    deck.world = 12.0
    pos = rnd(rng, -2, 2)
    rad = rnd(rng, 2, 4)
    cen = [rnd(rng, -1, 1) for _ in range(3)]
    if fam == 'cards':
        deck.surfs += [M.Surf(1, 'px', [pos]), M.Surf(2, 'px', [pos]),
                       M.Surf(3, 's', cen + [rad]), M.Surf(4, 's', cen + [rad]),
                       M.Surf(5, 'p', [1, 0, 0, pos])]
    elif fam == 'by-transform':
        shift = rnd(rng, 1, 3)
        mot = Motion([shift, 0, 0])
        deck.trs.append(tr_card(rng, 1, mot, rng.choice(['12', '3'])))
        deck.surfs += [M.Surf(1, 'px', [pos]),
                       M.Surf(2, 'px', [round(pos - shift, 3)], tr=1),
                       M.Surf(3, 's', cen + [rad]),
                       M.Surf(4, 's', [round(cen[0] - shift, 3), cen[1], cen[2],
                                       rad], tr=1),
                       M.Surf(5, 'py', [0.3])]
    else:  # near-duplicates: must NOT be merged into something different
        import math
        deck.surfs += [M.Surf(1, 'px', [pos]),
                       M.Surf(2, 'px', [math.nextafter(pos, 10.0)]),
                       M.Surf(3, 's', cen + [rad]),
                       M.Surf(4, 's', cen + [round(rad + 0.5, 3)]),
                       M.Surf(5, 'px', [round(pos + 1.0, 3)])]
    geoms = [M.AND(M.S(-3), M.S(-1)), M.AND(M.S(-4), M.S(2)),
             M.AND(M.S(3), M.S(-5), M.S(1)), M.AND(M.S(4), M.S(-2)),
             M.OR(M.AND(M.S(-3), M.S(5)), M.AND(M.S(4), M.S(5)))]
    for num, geom in enumerate(geoms, start=1):
        deck.cells.append(M.Cell(num, mat=num, rho=f'-{num}.5',
                                 geom=M.AND(geom, M.S(-WORLD_SURF)),
                                 imp={'n': '1'}))
        deck.mats.append(M.Material(num, [('13027', '1')]))
    deck.surfs.append(M.Surf(WORLD_SURF, 'so', [deck.world]))
    deck.cells.append(M.Cell(900, mat=0, geom=M.S(WORLD_SURF), imp={'n': '0'}))
    deck.tags.add(f'dup.{fam}')
    return deck


def build_near_pairs(rng):
    '''Thin foils and gaps on large objects: pairs of surfaces of the same
    kind whose parameters agree to more than six significant digits but are
    different surfaces, with a cell in the gap.'''
    import numpy as np
    deck = M.Deck('C13 dup near-6digits')
    deck.world = 400.0
    rad = round(rng.uniform(200, 300), 1)
    pos = round(rng.uniform(100, 150), 1)
    cyl = round(rng.uniform(60, 90), 1)
    gaps = [round(rng.uniform(2e-4, 9e-4), 5) for _ in range(3)]
    deck.surfs += [M.Surf(1, 'so', [rad]), M.Surf(2, 'so', [rad + gaps[0]]),
                   M.Surf(3, 'pz', [pos]), M.Surf(4, 'pz', [pos + gaps[1]]),
                   M.Surf(5, 'cz', [cyl]),
                   M.Surf(6, 'c/z', [0, 0, cyl + gaps[2]])]
    geoms = [M.AND(M.S(-5), M.S(-3)),                      # inner cylinder
             M.AND(M.S(5), M.S(-6), M.S(-3)),              # thin tube
             M.AND(M.S(6), M.S(-1), M.S(-3)),              # rest below pz
             M.AND(M.S(3), M.S(-4), M.S(-1)),              # thin slab
             M.AND(M.S(4), M.S(-1)),                       # above
             M.AND(M.S(1), M.S(-2))]                       # thin shell
    for num, geom in enumerate(geoms, start=1):
        deck.cells.append(M.Cell(num, mat=num, rho=f'-{num}.5', geom=geom,
                                 imp={'n': '1'}))
        deck.mats.append(M.Material(num, [('13027', '1')]))
    deck.cells.append(M.Cell(900, mat=0, geom=M.S(2), imp={'n': '0'}))
    hints = []
    for _ in range(40):
        vec = np.array([rng.gauss(0, 1) for _ in range(3)])
        vec /= np.linalg.norm(vec)
        hints.append(vec * (rad + gaps[0] / 2))
        ang = rng.uniform(0, 6.28)
        hints.append(np.array([(cyl + gaps[2] / 2) * np.cos(ang),
                               (cyl + gaps[2] / 2) * np.sin(ang),
                               rng.uniform(-50, pos - 1)]))
        hints.append(np.array([rng.uniform(-40, 40), rng.uniform(-40, 40),
                               pos + gaps[1] / 2]))
    deck.hints = hints
    deck.exact_hints = True
    deck.tags.add('dup.near-6digits')
    return deck


def build_torus_pair(rng):
    '''An axis-aligned torus centred at the origin and the same card
    rotated about the origin: identical TORUS parameters, one of them with a
    TRANSFORM block.  They must not be merged.'''
    from ..gen_surf import motion_of_class
    deck = M.Deck('C13 dup torus-rotated-same-centre')
    deck.world = 12.0
    kind = rng.choice(['tx', 'ty', 'tz'])
    par = [0, 0, 0, rnd(rng, 3, 5), rnd(rng, 0.6, 1.2), rnd(rng, 0.6, 1.2)]
    rot = motion_of_class(rng, 'generic')
    mot = Motion([0, 0, 0], rot.b)
    deck.trs.append(tr_card(rng, 3, mot, rng.choice(['12', 'star'])))
    rot2 = motion_of_class(rng, 'generic')
    deck.trs.append(tr_card(rng, 4, Motion([0, 0, 0], rot2.b),
                            rng.choice(['12', 'star'])))
    deck.surfs += [M.Surf(1, kind, par), M.Surf(2, kind, list(par), tr=3),
                   M.Surf(3, 'so', [rnd(rng, 6.5, 8)]),
                   M.Surf(4, kind, list(par), tr=4)]
    geoms = [M.S(-1), M.AND(M.S(-2), M.S(1)),
             M.AND(M.S(1), M.S(2), M.S(-3), M.S(4)), M.S(3),
             M.AND(M.S(-4), M.S(1), M.S(2))]
    for num, geom in enumerate(geoms, start=1):
        deck.cells.append(M.Cell(num, mat=num, rho=f'-{num}.5',
                                 geom=M.AND(geom, M.S(-WORLD_SURF)),
                                 imp={'n': '1'}))
        deck.mats.append(M.Material(num, [('13027', '1')]))
    deck.surfs.append(M.Surf(WORLD_SURF, 'so', [deck.world]))
    deck.cells.append(M.Cell(900, mat=0, geom=M.S(WORLD_SURF), imp={'n': '0'}))
    deck.hints = [[par[3], 0, 0], [0, par[3], 0], [0, 0, par[3]],
                  [-par[3], 0, 0]]
    deck.tags.add('dup.torus-rotated-same-centre')
    return deck


def build(case):
    src, fam = case.family.split(':', 1)
    if src == 'dup':
        return build_dup(case.rng, fam)
    return SOURCES[src][0](case.rng, fam)


def comp_by_key(sides, t4):
    assigned = {}
    for name, _n, ids in t4.geomcomp:
        for vid in ids:
            assigned[vid] = name
    out = {}
    for vid, key in sides.vkeys.items():
        out.setdefault(key, set()).add(assigned.get(vid))
    return out


def run_upstream(case, ctx):
    '''The 128 upstream decks (no model available): the outputs under
    different option sets are compared with each other point by point.'''
    import re
    import numpy as np
    from ..core import Outcome
    out = Outcome()
    decks = [d for k, d in enumerate(upstream_decks())
             if k % UPSTREAM_CHUNKS == case.index]
    nsets = 2 if case.tier == 'quick' else 10
    structures = []
    for name, text, opts in decks:
        base = ctx.convert(text, opts)
        if not base.ok:
            out.counters['upstream_base_raised'] += 1
            continue
        t4_a, _p = ctx.parse(base)
        if case.tier == 'quick' and len(t4_a.volus) > 300:
            out.counters['upstream_large_left_to_thorough'] += 1
            continue
        cells = set()
        for line in text.split('\n')[1:]:
            if not line.strip():
                break
            match = re.match(r'^ {0,4}(\d+)\s', line)
            if match:
                cells.add(int(match.group(1)))
        vals = [abs(v) for s_ in t4_a.surfs.values() for v in s_.params]
        world = min(200.0, max([1.0] + vals) * 1.2)
        comps_a = None
        for optset in case.rng.sample(option_sets(), nsets):
            run_v = ctx.convert(text, opts + optset)
            out.counters['option_sets'] += 1
            if not run_v.ok:
                crash_violation(out, run_v, what=f'{name} raised with {optset}')
                continue
            t4_b, _p = ctx.parse(run_v)
            sides = probes.FileSides(t4_a, t4_b, cells)
            pts = probes.make_probes(case.rng, sides, world, n_uniform=600)
            judged, discarded, mism = probes.agree(sides, pts)
            out.judged += judged
            out.discarded += discarded
            structures.append(f'{name}:{optset}')
            if mism:
                out.violation('options-geometry', {'deck': name,
                                                   'options': optset,
                                                   **summarise(mism)})
            ca = {}
            for t4x, vk, dst in ((t4_a, sides.vkeys_a, 'a'),
                                 (t4_b, sides.vkeys, 'b')):
                assigned = {vid: nm for nm, _n, ids in t4x.geomcomp
                            for vid in ids}
                for vid, key in vk.items():
                    ca.setdefault(key, {}).setdefault(dst, set()).add(
                        assigned.get(vid))
            for key, both in ca.items():
                if 'a' in both and 'b' in both:
                    out.counters['composition_keys_compared'] += 1
                    if both['a'] != both['b']:
                        out.violation('options-composition',
                                      f'{name} {optset}: key {key} is in '
                                      f"{both['b']}, baseline {both['a']}")
                        break
        out.counters['upstream_decks'] += 1
    for evt in monitors.drain():
        if evt['monitor'] == 'dedup':
            out.violation('dedup-merged-different', evt['detail'])
        else:
            raise RuntimeError(evt['detail'])
    out.structures = structures
    out.nontrivial = bool(structures)
    out.sample = {'family': 'upstream', 'decks': [d[0] for d in decks][:4]}
    return out


def run(case, ctx):
    if case.family == 'upstream':
        return run_upstream(case, ctx)
    from ..core import Outcome
    out = Outcome()
    deck = build(case)
    out.tags |= deck.tags
    out.structure = case.family + '|' + (
        gen_cells.structure_of(deck) if deck.cells else '')
    base_cli = list(deck.cli)
    run0 = convert_deck(case, ctx, out, deck, name='default')
    if not run0.ok:
        crash_violation(out, run0)
        return out
    res = region_agreement(case, ctx, out, deck, run0, n_uniform=1500)
    if res is None:
        return out
    sides0, mism, pts, t4_0 = res
    if mism:
        out.violation('options-geometry', {'options': 'default',
                                           **summarise(mism)})
    comps0 = comp_by_key(sides0, t4_0)
    all_sets = option_sets()
    if case.tier == 'quick':
        chosen = case.rng.sample(all_sets, 12)
    else:
        chosen = all_sets
    nsets = 1
    for opts in chosen:
        deck.cli = base_cli + opts
        run_v = convert_deck(case, ctx, out, deck, name=' '.join(opts))
        out.counters['option_sets'] += 1
        for flag in opts:
            if flag.startswith('--'):
                out.counters[f'opt{flag}'] += 1
        if not run_v.ok:
            crash_violation(out, run_v, what=f'conversion raised with {opts}')
            continue
        t4_v, _probs = ctx.parse(run_v)
        sides_v = probes.Sides(sides0.ref, t4_v)
        judged, discarded, mism_v = probes.agree(sides_v, pts)
        out.judged += judged
        out.discarded += discarded
        nsets += 1
        if mism_v:
            out.violation('options-geometry', {'options': opts,
                                               **summarise(mism_v)})
        comps_v = comp_by_key(sides_v, t4_v)
        for key, names in comps_v.items():
            if key in comps0 and key in sides0.ref.leaf:
                out.counters['composition_keys_compared'] += 1
                if names != comps0[key]:
                    out.violation('options-composition',
                                  f'{opts}: key {key} is in {names}, default '
                                  f'options give {comps0[key]}')
                    break
    deck.cli = base_cli
    for evt in monitors.drain():
        if evt['monitor'] == 'dedup':
            out.violation('dedup-merged-different', evt['detail'])
        else:
            raise RuntimeError(evt['detail'])
    out.nontrivial = nsets >= 5 and out.judged >= 300
    out.sample = {'family': case.family, 'option_sets': [c for c in chosen[:3]],
                  'probes': int(len(pts)), 'n_sets': nsets}
    out.decks = out.decks[:1] + out.decks[-2:]
    return out
