'''C17 - unsupported or malformed input stops the run instead of yielding
geometry (fault enumeration).'''
import copy

from .. import model as M
from .. import mcnp_ref as ref
from .. import gen_lat, gen_univ
from ..gen_surf import (ELEMENTARY_FAMILIES, MACRO_FAMILIES, elementary,
                        macrobody)
from ..decks import probe_deck
from . import c03, c04, c10, c12

ID = 'C17'
LEVEL = 'fault_enumeration'
RULE = ('valid generated decks are converted first (must succeed), then '
        'every applicable site of every fault class receives one fault: m=-1 '
        'on each TR card / inline transformation; --lattice dropped, of the '
        'wrong dimensionality or with a non-trivial extra range; each '
        'surface and macrobody card with one parameter too few and one too '
        'many; an unknown mnemonic; facet index one past the last facet, and '
        'a facet on a plain surface; FILL array one entry short / long; IMP '
        'cards of unequal length or shorter than the cell list; one sign '
        'flipped in a material card; malformed --lattice strings; the '
        'faulty run must raise or exit non-zero and never print "finished '
        'at"; distinct = distinct (class, site, mnemonic); non-trivial = the '
        'unfaulted deck converted')
ASSUMPTIONS = [
    'each injected fault makes the input unsupported or malformed in the '
    'sense of the property statement (the statement\'s own list)',
    'the wording of the error is not judged, only that the run stops',
    'a fault whose base deck does not convert is skipped (counted)',
]
ANCHORS = ['normalize_transform', 'ParseMCNPCell.__init__', 'to_fillid',
           'develop_lattice', 'check_params_length', 'normalize_surface',
           'string_to_enum', 'pot_expand_surfs', 'parse_fill_kw',
           'parse_importance_cards', 'compositionConversionMCNPToT4',
           'parse_lattice', 'parse_ranges']
REQUIRED_REACH = ['MacroBodies.py:check_params_length',
                  'ESurfaceTypeMCNP.py:string_to_enum',
                  'main.py:parse_lattice',
                  'ParseMCNPCell.parse_importance_cards',
                  'CellConversion.pot_expand_surfs']

ELEM_KINDS = sorted(ELEMENTARY_FAMILIES)
MACRO_KINDS = sorted(MACRO_FAMILIES)
CLASSES = (['tr-m-minus1:' + a for a in ('surf-tr', 'trcl-num', 'fill-num',
                                         'trcl-inline13', 'fill-inline13',
                                         'trcl-star13', 'fill-star13',
                                         'star-tr-card', 'tr-with-jumps',
                                         'surplus-entry-card',
                                         'surplus-entry-inline')]
           + ['lattice-no-option', 'lattice-wrong-dim', 'lattice-extra-range',
              'lattice-range-wrong-slot', 'lattice-range-reversed']
           + [f'surf-few:{k}' for k in ELEM_KINDS]
           + [f'surf-many:{k}' for k in ELEM_KINDS]
           + [f'macro-few:{k}' for k in MACRO_KINDS]
           + [f'macro-many:{k}' for k in MACRO_KINDS]
           + ['unknown-mnemonic', 'unknown-mnemonic-internal',
              'mnemonic-glued-to-number']
           + [f'facet-beyond:{k}' for k in MACRO_KINDS
              if k not in ('sph', 'ell')]
           + ['facet-beyond-unconverted']
           + ['facet-zero', 'facet-on-plain', 'fill-array-short',
              'fill-array-long', 'fill-array-surplus-is-tr',
              'fill-array-short-with-parens', 'fill-four-ranges',
              'fill-array-long-by-repeat', 'fill-array-short-by-repeat',
              'imp-unequal', 'imp-unequal-same-tokens', 'imp-short',
              'lattice-arg-malformed']
           + [f'material-mixed-sign:{b}-{w}' for b in ('pos', 'neg')
              for w in ('first', 'mid', 'last')])
_PER = {'quick': 3, 'thorough': 400}

# parameter counts MCNP accepts for cards with optional entries
VALID_COUNTS = {'p': {4, 9}, 'kx': {2, 3}, 'ky': {2, 3}, 'kz': {2, 3},
                'k/x': {4, 5}, 'k/y': {4, 5}, 'k/z': {4, 5},
                'x': {2, 4, 6}, 'y': {2, 4, 6}, 'z': {2, 4, 6},
                'rhp': {9, 15}, 'hex': {9, 15}, 'rec': {10, 12}}

MALFORMED = ['malformed', 'three,-1:5', '{cell},', '{cell},0:4,0:4,0:4,0:4',
             '{cell},0:6.022e23', '{cell},-6.022e23:0', '{cell},0::5',
             '{cell},1-3', '{cell};0:3', '{cell},a:b', '{cell},0:',
             ',0:3', '{cell},0:3,', '{cell},0:3;0:3', '{cell},0:3,0-3',
             # spellings Python's int() accepts, but which are not integers
             '{cell},0:1_0', '{cell},0:\u0661', '{cell},-1_0:0',
             '{cell}_0,0:3', '{cell},0__1:3',
             # the valid option of the deck with one bound respelled
             'RESPELL-UNDERSCORE', 'RESPELL-DIGITS', 'RESPELL-UNDERSCORE',
             'RESPELL-CELL']


def plan(tier):
    # (the quick tier goes once through every malformed --lattice spelling)
    return [(cls, len(MALFORMED) if tier == 'quick'
             and cls == 'lattice-arg-malformed' else _PER[tier])
            for cls in CLASSES]


class _Sub:
    def __init__(self, case, family):
        self.rng = case.rng
        self.family = family
        self.index = case.index
        self.tier = case.tier
        self.seed = case.seed


def one_surface_deck(rng, kind, macro):
    fams = (MACRO_FAMILIES if macro else ELEMENTARY_FAMILIES)[kind]
    fam = rng.choice(fams)
    params = macrobody(rng, kind, fam) if macro else elementary(rng, kind, fam)
    sur = M.Surf(1, kind, params)
    deck = probe_deck([sur], [M.S(-1), M.S(1)], title=f'C17 {kind}')
    return deck


def build_pair(case):
    '''Return (valid deck, faulty deck, description, class key) or None.'''
    rng = case.rng
    cls = case.family
    head, _, arg = cls.partition(':')
    if head == 'tr-m-minus1':
        if arg in ('surf-tr', 'trcl-num'):
            deck = c04.build(_Sub(case, f'{arg}|generic'))
            trc = deck.trs[0]
            # spell it with 13 entries
            full = [float(v) for v in trc.motion.b.reshape(9)]
            trc.entries, trc.starred, trc.mflag = full, False, 1
            trc.motion = trc.motion
            bad = copy.deepcopy(deck)
            bad.trs[0].mflag = -1
            return deck, bad, f'TR{trc.id} m=-1 ({arg})'
        if arg == 'fill-num':
            deck = gen_univ.build(rng, 'fill-num')
            trc = deck.trs[0]
            full = [float(v) for v in trc.motion.b.reshape(9)]
            trc.entries, trc.starred, trc.mflag = full, False, 1
            bad = copy.deepcopy(deck)
            bad.trs[0].mflag = -1
            return deck, bad, f'TR{trc.id} m=-1 (fill)'
        if arg == 'tr-with-jumps':
            deck = c04.build(_Sub(case, f'{rng.choice(["surf-tr", "trcl-num"])}'
                                  '|generic'))
            trc = deck.trs[0]
            full = [float(v) for v in trc.motion.b.reshape(9)]
            pattern = rng.choice(['rows', 'cols', 'none'])
            if pattern == 'rows':
                ent = full[:6] + [None, None, None]
            elif pattern == 'cols':
                ent = [full[0], full[1], None, full[3], full[4], None,
                       full[6], full[7], None]
            else:
                from ..mcnp_ref import Motion
                trc.motion = Motion(trc.motion.o)
                ent = [None] * 9
            trc.entries, trc.starred, trc.mflag = ent, False, 1
            bad = copy.deepcopy(deck)
            bad.trs[0].mflag = -1
            return deck, bad, f'TR{trc.id} with J entries and m=-1'
        if arg == 'surplus-entry-card':
            # fourteen numbers: m=-1 in the thirteenth position and one more
            deck = c04.build(_Sub(case, f'{rng.choice(["surf-tr", "trcl-num"])}'
                                  '|generic'))
            trc = deck.trs[0]
            full = [float(v) for v in trc.motion.b.reshape(9)]
            trc.entries, trc.starred, trc.mflag = full, False, 1
            bad = copy.deepcopy(deck)
            bad.trs[0].entries = full + [rng.choice([-1, 1])]
            bad.trs[0].mflag = rng.choice([0, 1, -1])
            return deck, bad, f'TR{trc.id} with 14 entries'
        if arg == 'surplus-entry-inline':
            deck = c04.build(_Sub(case, 'trcl-inline13|generic'))
            bad = copy.deepcopy(deck)
            mval = rng.choice([-1, 1])
            for cel in bad.cells:
                if cel.trcl is not None:
                    cel.trcl.entries[-1] = mval
                    cel.trcl.entries.append(0)
            return deck, bad, f'inline TRCL with 14 entries (m={mval})'
        if arg == 'star-tr-card':
            deck = c04.build(_Sub(case, f'{rng.choice(["surf-tr", "trcl-num"])}'
                                  '|generic'))
            trc = deck.trs[0]
            import math
            degs = [math.degrees(math.acos(max(-1.0, min(1.0, float(v)))))
                    for v in trc.motion.b.reshape(9)]
            trc.entries, trc.starred, trc.mflag = degs, True, 1
            bad = copy.deepcopy(deck)
            bad.trs[0].mflag = -1
            return deck, bad, f'*TR{trc.id} m=-1'
        if arg == 'trcl-star13':
            deck = c04.build(_Sub(case, 'trcl-star|generic'))
            for cel in deck.cells:
                if cel.trcl is not None:
                    cel.trcl.entries = list(cel.trcl.entries) + [1]
            bad = copy.deepcopy(deck)
            for cel in bad.cells:
                if cel.trcl is not None:
                    cel.trcl.entries[-1] = -1
            return deck, bad, 'inline *TRCL m=-1'
        if arg == 'fill-star13':
            deck = gen_univ.build(rng, 'fill-star')
            hit = False
            for cel in deck.cells:
                if cel.fill is not None and cel.fill.tr is not None and \
                        cel.fill.tr.starred and \
                        len(cel.fill.tr.entries or ()) == 9:
                    cel.fill.tr.entries = list(cel.fill.tr.entries) + [1]
                    hit = True
            if not hit:
                return None
            bad = copy.deepcopy(deck)
            for cel in bad.cells:
                if cel.fill is not None and cel.fill.tr is not None and \
                        len(cel.fill.tr.entries or ()) == 10:
                    cel.fill.tr.entries[-1] = -1
                    break
            return deck, bad, 'inline *FILL transformation m=-1'
        if arg == 'trcl-inline13':
            deck = c04.build(_Sub(case, 'trcl-inline13|generic'))
            bad = copy.deepcopy(deck)
            for cel in bad.cells:
                if cel.trcl is not None:
                    cel.trcl.entries[-1] = -1
            return deck, bad, 'inline TRCL m=-1'
        if arg == 'fill-inline13':
            deck = gen_univ.build(rng, 'fill-inline12')
            for cel in deck.cells:
                if cel.fill is not None and cel.fill.tr is not None and \
                        cel.fill.tr.entries and len(cel.fill.tr.entries) == 9:
                    cel.fill.tr.entries = list(cel.fill.tr.entries) + [1]
            bad = copy.deepcopy(deck)
            hit = False
            for cel in bad.cells:
                if cel.fill is not None and cel.fill.tr is not None and \
                        cel.fill.tr.entries and len(cel.fill.tr.entries) == 10:
                    cel.fill.tr.entries[-1] = -1
                    hit = True
                    break
            return (deck, bad, 'inline FILL transformation m=-1') if hit \
                else None
    if head.startswith('lattice'):
        if head == 'lattice-arg-malformed':
            deck = gen_lat.build_rect(rng, 'cli-single')
            bad = copy.deepcopy(deck)
            pos = bad.cli.index('--lattice')
            pick = case.index if case.tier == 'quick' else \
                case.index * 7 + rng.randrange(len(MALFORMED))
            text = MALFORMED[pick % len(MALFORMED)].replace('{cell}',
                                                       str(gen_lat.LAT_CELL))
            if text.startswith('RESPELL'):
                # the numbers stay what they are for Python's int(): the
                # option has the right cell and the right number of ranges
                head, *rngs = bad.cli[pos + 1].split(',')
                if text == 'RESPELL-CELL':
                    head = head[0] + '_' + head[1:]
                else:
                    k = rng.randrange(len(rngs))
                    lo, hi = rngs[k].split(':')
                    tgt = rng.choice(['lo', 'hi'])
                    val = lo if tgt == 'lo' else hi
                    sign = '-' if val.startswith('-') else ''
                    digits = val.lstrip('+-')
                    if text == 'RESPELL-UNDERSCORE':
                        digits = '0_' + digits if len(digits) == 1 else \
                            digits[0] + '_' + digits[1:]
                    else:
                        digits = ''.join(chr(0x0660 + int(ch))
                                         for ch in digits)
                    val = sign + digits
                    rngs[k] = f'{val}:{hi}' if tgt == 'lo' else f'{lo}:{val}'
                text = ','.join([head] + rngs)
                bad.cli[pos + 1] = text
                return deck, bad, f'--lattice {text!r}'
            if rng.random() < 0.5:
                bad.cli[pos + 1] = text
            else:
                bad.cli += ['--lattice', text]
            return deck, bad, f'--lattice {text!r}'
        for _ in range(20):
            deck = (gen_lat.build_rect if rng.random() < 0.6 else
                    gen_lat.build_hex)(rng, 'cli-single')
            pos = deck.cli.index('--lattice')
            ndim = len(deck.cli[pos + 1].split(',')) - 1
            if (head == 'lattice-wrong-dim' and ndim == 1) or \
                    (head in ('lattice-extra-range',
                              'lattice-range-wrong-slot') and ndim == 3):
                continue
            break
        bad = copy.deepcopy(deck)
        spec = bad.cli[pos + 1].split(',')
        if head == 'lattice-no-option':
            del bad.cli[pos:pos + 2]
            return deck, bad, 'no --lattice option'
        if head == 'lattice-wrong-dim':
            if ndim == 1:
                return None
            spec = spec[:-1]
            bad.cli[pos + 1] = ','.join(spec)
            return deck, bad, f'--lattice {bad.cli[pos + 1]} for a {ndim}-D lattice'
        if head == 'lattice-extra-range':
            if ndim == 3:
                return None
            spec.append(f'{rng.randint(-2, 0)}:{rng.randint(1, 2)}')
            bad.cli[pos + 1] = ','.join(spec)
            return deck, bad, f'--lattice {bad.cli[pos + 1]} for a {ndim}-D lattice'
        if head == 'lattice-range-wrong-slot':
            # as many non-trivial ranges as the lattice has directions, but
            # one of them sits in a slot the lattice does not have
            if ndim == 3:
                return None
            ranges = spec[1:] + ['0:0'] * (3 - ndim)
            k = rng.randrange(ndim)
            moved = ranges[k]
            low = moved.split(':')[0]
            if moved.split(':')[0] == moved.split(':')[1]:
                moved = f'{low}:{int(low) + 1}'
            ranges[k] = f'{low}:{low}'
            ranges[rng.randrange(ndim, 3)] = moved
            bad.cli[pos + 1] = ','.join([spec[0]] + ranges)
            return deck, bad, (f'--lattice {bad.cli[pos + 1]} for a {ndim}-D '
                               'lattice')
        if head == 'lattice-range-reversed':
            k = rng.randrange(1, len(spec))
            low, high = (int(v) for v in spec[k].split(':'))
            if low == high:
                high = low + 1
            spec[k] = f'{high}:{low}' if rng.random() < 0.7 else \
                f'{high + 1}:{low - 1}'
            bad.cli[pos + 1] = ','.join(spec)
            return deck, bad, f'--lattice {bad.cli[pos + 1]} (empty range)'
    if head in ('surf-few', 'surf-many', 'macro-few', 'macro-many'):
        macro = head.startswith('macro')
        deck = one_surface_deck(rng, arg, macro)
        bad = copy.deepcopy(deck)
        sur = bad.surfs[0]
        valid = VALID_COUNTS.get(arg, {len(sur.params)})
        count = len(sur.params)
        step = -1 if head.endswith('few') else 1
        count += step
        while count in valid:
            count += step
        if count <= 0:
            return None
        if count < len(sur.params):
            sur.params = sur.params[:count]
        else:
            sur.params = sur.params + [rng.choice([1.0, 0.5, 2.0])
                                       for _ in range(count - len(sur.params))]
        return deck, bad, (f'{arg} with {len(sur.params)} parameters instead '
                           f'of {len(deck.surfs[0].params)}')
    if head == 'unknown-mnemonic':
        kind = rng.choice(ELEM_KINDS)
        deck = one_surface_deck(rng, kind, False)
        bad = copy.deepcopy(deck)
        bad.surfs[0].kind = rng.choice(['qx', 'pw', 'sphere', 'kk', 'c/w',
                                        'tt', 'plane'])
        return deck, bad, f'mnemonic {bad.surfs[0].kind}'
    if head == 'mnemonic-glued-to-number':
        # '7px' is neither a transformation number nor a mnemonic
        deck = c04.build(_Sub(case, 'surf-tr|' + rng.choice(
            ['translation', 'generic', 'quarter'])))
        bad = copy.deepcopy(deck)
        bad.surfs[0].glued = True
        return deck, bad, ('entry ' + bad.surfs[0].atoms()[1] + ' on a '
                           'surface card')
    if head == 'unknown-mnemonic-internal':
        # names of the converter's internal surface types (general cylinder,
        # cone, torus): they are not MCNP mnemonics
        deck = one_surface_deck(rng, 'c/z', False)
        bad = copy.deepcopy(deck)
        kind = rng.choice(['c', 'k', 'k', 't'])
        bad.surfs[0].kind = kind
        bad.surfs[0].params = {'c': [0, 0, 0, 0, 0, 1, 1.5],
                               'k': [0, 0, 0, 0, 0, 1, 0.5] +
                               ([1] if rng.random() < 0.5 else []),
                               't': [0, 0, 0, 0, 0, 1, 4, 1, 1]}[kind]
        return deck, bad, f'mnemonic {kind}'
    if head == 'facet-zero':
        kind = rng.choice([k for k in MACRO_KINDS if k not in ('sph', 'ell')])
        deck = c03.build(_Sub(case, f'{kind}|{rng.choice(MACRO_FAMILIES[kind])}'))
        bad = copy.deepcopy(deck)
        cel = bad.cells[rng.randrange(2)]
        cel.geom = M.AND(M.S(rng.choice([1, -1]), facet=0), cel.geom[2])
        return deck, bad, f'facet 0 of a {kind}'
    if head == 'facet-beyond':
        deck = c03.build(_Sub(case, f'{arg}|{rng.choice(MACRO_FAMILIES[arg])}'))
        nfac = ref.n_facets(arg, deck.surfs[0].params)
        bad = copy.deepcopy(deck)
        cel = bad.cells[rng.randrange(2)]
        sign = rng.choice([1, -1])
        cel.geom = M.AND(M.S(sign, facet=nfac + 1), cel.geom[2])
        return deck, bad, f'facet {nfac + 1} of a {arg} with {nfac} facets'
    if head == 'facet-beyond-unconverted':
        # the bad facet sits in a cell that is never converted: the outer
        # cell of zero importance, or a cell of a universe that fills nothing
        kind = rng.choice([k for k in MACRO_KINDS if k not in ('sph', 'ell')])
        deck = c03.build(_Sub(case, f'{kind}|{rng.choice(MACRO_FAMILIES[kind])}'))
        nfac = ref.n_facets(kind, deck.surfs[0].params)
        bad = copy.deepcopy(deck)
        leaf = M.S(rng.choice([1, -1]), facet=nfac + rng.choice([1, 1, 2, 5]))
        where = rng.choice(['zero-importance', 'unused-universe'])
        if where == 'zero-importance':
            cel = [c for c in bad.cells if bad.importance_zero(c)][-1]
            cel.geom = M.AND(leaf, cel.geom) if rng.random() < 0.5 else \
                M.OR(cel.geom, leaf)
        else:
            bad.cells.append(M.Cell(777, mat=0, geom=leaf, imp={'n': '1'},
                                    u=77))
        return deck, bad, (f'facet {leaf[3]} of a {kind} with {nfac} facets '
                           f'in a cell that is not converted ({where})')
    if head == 'facet-on-plain':
        kind = rng.choice(['px', 's', 'c/z', 'p', 'so', 'gq', 'tz'])
        deck = one_surface_deck(rng, kind, False)
        bad = copy.deepcopy(deck)
        bad.cells[0].geom = M.AND(M.S(-1, facet=2), bad.cells[0].geom[2])
        return deck, bad, f'facet .2 of a plain {kind}'
    if head in ('fill-array-long-by-repeat', 'fill-array-short-by-repeat'):
        for _ in range(20):
            deck = (gen_lat.build_rect if rng.random() < 0.6 else
                    gen_lat.build_hex)(rng, rng.choice(['array-own',
                                                        'shorthand']))
            lat = deck.cell(gen_lat.LAT_CELL)
            if lat.fill.array is not None and len(lat.fill.array) >= 4:
                break
        else:
            return None
        bad = copy.deepcopy(deck)
        blat = bad.cell(gen_lat.LAT_CELL)
        arr = [str(v) for v in blat.fill.array]
        size = len(arr)
        keep = rng.randint(1, size - 2)
        if head == 'fill-array-long-by-repeat':
            reps = size - keep + rng.randint(1, 4)      # crosses the end
        else:
            reps = size - keep - rng.randint(1, 2)
            if reps < 1:
                return None
        blat.fill.render_array = arr[:keep] + [f'{reps}r']
        blat.fill.array = blat.fill.array[:keep] + \
            [blat.fill.array[keep - 1]] * reps
        return deck, bad, (f'FILL array {" ".join(blat.fill.render_array)} '
                           f'expands to {keep + reps} entries instead of {size}')
    if head in ('fill-array-short-with-parens', 'fill-four-ranges'):
        from ..gen_surf import tr_card
        from ..mcnp_ref import Motion
        deck = (gen_lat.build_rect if rng.random() < 0.6 else
                gen_lat.build_hex)(rng, rng.choice(['array-own', 'ortho-2d',
                                                    'regular-6']))
        lat = deck.cell(gen_lat.LAT_CELL)
        if lat.fill.array is None or lat.fill.tr is not None or \
                len(lat.fill.array) < 2:
            return None
        bad = copy.deepcopy(deck)
        blat = bad.cell(gen_lat.LAT_CELL)
        if head == 'fill-four-ranges':
            blat.fill.ranges = list(blat.fill.ranges) + \
                [(0, 0)] * rng.randint(1, 2)
            return deck, bad, f'FILL with {len(blat.fill.ranges)} ranges'
        # the array is short by 1 or 3 entries, and the missing numbers are
        # those of a per-element transformation between parentheses
        arr = [str(v) for v in blat.fill.array]
        nmiss = 1 if len(arr) < 5 or rng.random() < 0.6 else 3
        keep = arr[:len(arr) - nmiss]
        trid = next((v for v in blat.fill.array if v), 1)
        if trid not in [t.id for t in deck.trs]:
            for dck in (deck, bad):
                dck.trs.append(tr_card(rng, trid, Motion([0.3, 0.0, 0.0]),
                                       '3'))
        inner = [str(trid)] if nmiss == 1 else [str(trid), '0', '0']
        inner[0] = '(' + inner[0]
        inner[-1] += ')'
        pos = rng.randint(1, len(keep))
        blat.fill.render_array = keep[:pos] + inner + keep[pos:]
        blat.fill.array = blat.fill.array[:len(keep)]
        return deck, bad, ('FILL array ' + ' '.join(blat.fill.render_array)
                           + f' for {len(arr)} elements')
    if head == 'fill-array-surplus-is-tr':
        # one or three entries too many, the first of which is the number of
        # an existing TR card (or a displacement): not a fill transformation
        from ..gen_surf import tr_card
        from ..mcnp_ref import Motion
        deck = (gen_lat.build_rect if rng.random() < 0.6 else
                gen_lat.build_hex)(rng, rng.choice(['array-own', 'ortho-2d'])
                                   if rng.random() < 0.6 else 'array-zero')
        lat = deck.cell(gen_lat.LAT_CELL)
        if lat.fill.array is None or lat.fill.tr is not None:
            return None
        extra = [v for v in lat.fill.array if v][:1] or [1]
        if rng.random() < 0.4:
            extra = extra + [0, 0]
        if extra[0] not in [t.id for t in deck.trs]:
            deck.trs.append(tr_card(rng, extra[0], Motion([0.3, 0.0, 0.0]),
                                    '3'))
        bad = copy.deepcopy(deck)
        blat = bad.cell(gen_lat.LAT_CELL)
        blat.fill.array = blat.fill.array + extra
        blat.fill.render_array = None
        return deck, bad, (f'FILL array followed by {extra} (TR{extra[0]} '
                           'exists)')
    if head in ('fill-array-short', 'fill-array-long'):
        deck = (gen_lat.build_rect if rng.random() < 0.6 else
                gen_lat.build_hex)(rng, 'array-own' if rng.random() < 0.5
                                   else 'ortho-2d' if rng.random() < 0.5
                                   else 'regular-6')
        lat = deck.cell(gen_lat.LAT_CELL)
        if lat.fill.array is None:
            return None
        bad = copy.deepcopy(deck)
        blat = bad.cell(gen_lat.LAT_CELL)
        if head.endswith('short'):
            blat.fill.array = blat.fill.array[:-1]
        else:
            blat.fill.array = blat.fill.array + [blat.fill.array[0]]
        if getattr(blat.fill, 'render_array', None) is not None:
            # the array was written with repeats: spell the changed one anew
            blat.fill.render_array = gen_lat._with_shorthand(blat.fill.array)
        return deck, bad, f'FILL array with {len(blat.fill.array)} entries ' \
            f'instead of {len(lat.fill.array)}'
    if head in ('imp-unequal', 'imp-unequal-same-tokens', 'imp-short'):
        deck = c12.build(_Sub(case, 'data-np-two-cards' if head !=
                              'imp-short' else 'data-n'))
        bad = copy.deepcopy(deck)
        parts, toks = bad.imp_cards[-1]
        if head == 'imp-unequal-same-tokens':
            # as many tokens as the other card, but one of them is a repeat:
            # one value too many
            toks = list(toks)
            k = rng.randrange(1, len(toks) - 1)
            toks[k] = '2r' if rng.random() < 0.5 else '2R'
        elif head == 'imp-unequal':
            toks = list(toks)[:-1] if rng.random() < 0.5 else \
                list(toks) + ['1']
        else:
            toks = list(toks)[:-rng.randint(1, 2)]
        bad.imp_cards[-1] = (parts, toks)
        return deck, bad, f'imp:{parts} with {len(toks)} entries for ' \
            f'{len(deck.cells)} cells'
    if head == 'material-mixed-sign':
        base_sign, where = arg.split('-')
        for _ in range(20):
            deck = c10.build(_Sub(case, 'mass-massrho' if base_sign == 'neg'
                                  else rng.choice(['atom-massrho',
                                                   'many-entries'])))
            cands = [m for m in deck.mats
                     if len(m.entries) >= (3 if where == 'mid' else 2)
                     and all(f.startswith('-') == (base_sign == 'neg')
                             for _z, f in m.entries)]
            if cands:
                break
        else:
            return None
        bad = copy.deepcopy(deck)
        mat = next(m for m in bad.mats if m.id == cands[0].id)
        k = {'first': 0, 'last': len(mat.entries) - 1,
             'mid': rng.randrange(1, max(2, len(mat.entries) - 1))}[where]
        zaid, frac = mat.entries[k]
        mat.entries[k] = (zaid, frac[1:] if frac.startswith('-')
                          else '-' + frac)
        return deck, bad, f'sign of entry {k + 1} of m{mat.id} flipped'
    raise ValueError(cls)


def inconclusive_reasons(tot, tier):
    heads = sorted({cls.split(':')[0] for cls in CLASSES})
    missing = [h for h in heads if not tot['counters'].get(f'class.{h}')]
    if missing:
        return ['fault class(es) with no applicable site in this run: '
                + ', '.join(missing)]
    return []


def run(case, ctx):
    from ..core import Outcome
    out = Outcome()
    pair = build_pair(case)
    if pair is None:
        out.skipped = 'no-applicable-site'
        return out
    deck, bad, what = pair
    out.tags.add('fault.' + case.family.split(':')[0])
    good_text = M.render(deck)
    bad_text = M.render(bad)
    out.structure = f'{case.family}|{what}|{case.index}'
    good = ctx.convert(good_text, deck.cli)
    if not good.ok:
        out.skipped = 'base-deck-raised'
        out.counters[f'base_raised:{case.family.split(":")[0]}'] += 1
        return out
    run_b = ctx.convert(bad_text, bad.cli)
    out.decks.append(('valid', good_text, list(deck.cli)))
    out.decks.append(('faulty', bad_text, list(bad.cli)))
    out.judged += 1
    out.counters['faults_injected'] += 1
    out.counters[f'class.{case.family.split(":")[0]}'] += 1
    stopped = (not run_b.ok) and not run_b.finished
    if run_b.exc_type == 'SystemExit' and run_b.exc_msg in ('0', 'None'):
        stopped = False
    out.sample = {'class': case.family, 'fault': what,
                  'outcome': run_b.brief()[:160]}
    if stopped:
        out.counters['stopped'] += 1
        out.counters[f'exc.{run_b.exc_type}'] += 1
        return out
    head, _, arg = case.family.partition(':')
    mech = f'{head}-accepted:{arg}' if head in ('surf-many', 'surf-few') \
        else None
    out.violation('fault-accepted', f'{case.family}: {what}: the conversion '
                  'finished normally', mech=mech, fault_class=case.family)
    return out
