'''C14 - output does not depend on MCNP-insignificant formatting of the
deck.'''
import random

from .. import model as M
from .. import formats, gen_cells, gen_univ, gen_lat, gen_mix
from ..judge import convert_deck
from . import c04, c10, c12

ID = 'C14'
LEVEL = 'exploration'
RULE = ('metamorphic: a generated deck D (Boolean cells, fills with every '
        'transformation spelling, lattices with FILL arrays, TR cards, '
        'material cards, IMP data cards) is converted as rendered and under K '
        'rewrites (K=5 quick, 10 thorough) composed of: letter case of '
        'mnemonics/keywords/card names; runs of blanks; tabs; continuation by '
        '5+ blanks or by trailing &; c comment lines between and inside '
        'cards; $ comments; a message block; Python-readable number '
        'respellings in every numeric field (densities inside C09\'s class); '
        'nR shorthand vs expansion in IMP/TR cards and FILL arrays; blank vs '
        'empty delimiter lines; missing final newline; leading blanks; plus '
        'a stratum with Fortran-only number spellings (1.5+0, 15-1, .15d1) in '
        'one field kind at a time; outputs are compared token by token after '
        'dropping the header and reading numeric tokens as floats; distinct '
        '= distinct (deck, recipe); non-trivial = rewrite text differs from '
        'the baseline text')
ASSUMPTIONS = [
    'the rewrites are MCNP-equivalent: column rules (80 columns, 5-blank '
    'continuation, c in columns 1-5 followed by a blank, tabs to 8-column '
    'stops), & followed only by blanks or a $ comment',
    'number respellings keep the decimal value exactly, so correctly rounded '
    'conversion gives the same double',
    'a failure under a Fortran-only spelling is attributed to the known '
    'finding only when that rewrite is the only one applied and the '
    'exception is the float() ValueError',
]
ANCHORS = ['get_block_positions', 'get_cards', 'is_continuation',
           'expand_tabs', 'Card.content', 'cellcard.py:split',
           'surfacecard.py:split', 'datacard.py:split', 'expand_data_card',
           'parse_keywords', 'normalize_float', 'get_surfaces',
           'get_transforms']
REQUIRED_REACH = ['blocks.py:get_block_positions', 'cards.py:get_cards',
                  'cards.py:is_continuation', 'cards.py:expand_tabs',
                  'main.py:Card.content', 'datacard.py:expand_data_card']

SOURCES = {
    'c01': (lambda rng, fam: gen_cells.build(rng, fam),
            ['inter', 'nested', 'compl-cell', 'partition', 'multi']),
    'c05': (lambda rng, fam: gen_univ.build(rng, fam),
            ['fill-num', 'fill-inline12', 'fill-star', 'both', 'depth2',
             'trcl-only']),
    'c06': (lambda rng, fam: gen_lat.build_rect(rng, fam),
            ['ortho-2d', 'shorthand', 'cli-single', 'array-own',
             'fill-rotation']),
    'c07': (lambda rng, fam: gen_lat.build_hex(rng, fam), ['regular-8']),
    'mix': (lambda rng, fam: gen_mix.build(rng, fam),
            ['univ+rect', 'cells+hex']),
    'c04': (None, ['surf-tr|generic', 'trcl-star|generic',
                   'trcl-inline12|quarter', 'implicit|generic',
                   # abbreviated inline matrices: the J / nJ / nM / I atoms
                   # between the parentheses are spelled in either case
                   'trcl-inline-jumps|generic', 'trcl-inline-jumps|quarter']),
    'c10': (None, ['atom-massrho', 'keywords', 'exponents', 'atom-atomrho']),
    'c12': (None, ['data-n', 'shorthand-r', 'data-np-two-cards',
                   'cell-cards-np']),
    'shared-density': (None, ['inter', 'partition', 'shared']),
}
FORTRAN_FIELDS = ['surface', 'tr', 'material', 'density', 'inline']
SINGLE = ['case', 'tabs', 'cont5', 'amp', 'ccomment', 'dollar', 'message',
          'numbers', 'shorthand', 'delims', 'nofinalnl', 'indent', 'blanks',
          'rho-any', 'extra-data']
_PER = {'quick': 3, 'thorough': 120}
_K = {'quick': 5, 'thorough': 10}


def attach_monitors():
    from .. import monitors
    monitors.attach_contracts()


def monitor_counts():
    from .. import monitors
    return dict(monitors.COUNTS)


def plan(tier):
    out = []
    for src, (_fn, fams) in SOURCES.items():
        for fam in fams:
            out.append((f'{src}:{fam}', _PER[tier]))
    for fld in FORTRAN_FIELDS:
        out.append((f'fortran:{fld}', _PER[tier] * 2))
    return out


class _Sub:
    '''A stand-in case for borrowing another property's build().'''

    def __init__(self, case, family):
        self.rng = case.rng
        self.family = family
        self.index = case.index
        self.tier = case.tier
        self.seed = case.seed


def build(case):
    src, fam = case.family.split(':', 1)
    rng = case.rng
    if src == 'fortran':
        pick = {'surface': ('c04', 'surf-tr|generic'),
                'tr': ('c04', 'surf-tr|generic'),
                'material': ('c10', 'atom-massrho'),
                'density': ('c10', 'atom-massrho'),
                'inline': ('c04', 'trcl-inline12|generic')}[fam]
        src, fam = pick
    if src == 'c04':
        deck = c04.build(_Sub(case, fam))
        # force a plain 12-number TR spelling so the card has numbers
        return deck
    if src == 'c10':
        return c10.build(_Sub(case, fam))
    if src == 'c12':
        return c12.build(_Sub(case, fam))
    if src == 'shared-density':
        # several cells with the same material and the same density
        deck = gen_cells.build(rng, fam)
        rho = f'-{rng.randint(1, 9)}.{rng.randint(0, 9)}'
        for cel in deck.cells:
            if int(cel.mat) != 0:
                cel.mat = 1
                cel.rho = rho
        return deck
    return SOURCES[src][0](rng, fam)


def run(case, ctx):
    from ..core import Outcome
    out = Outcome()
    deck = build(case)
    out.tags |= deck.tags
    base_text = M.render(deck)
    base = ctx.convert(base_text, deck.cli)
    out.decks.append(('baseline', base_text, list(deck.cli)))
    if not base.ok:
        out.skipped = 'baseline-raised'
        return out
    src = case.family.split(':')[0]
    structures = []
    for k in range(_K[case.tier]):
        rrng = random.Random(case.rng.getrandbits(64))
        if src == 'fortran':
            recipe = formats.Recipe(rrng, only=[])
            recipe.fortran_field = case.family.split(':')[1]
            recipe.fortran_used = False
        elif k == 0:
            recipe = formats.Recipe(rrng, only=[SINGLE[(case.index + hash(
                case.family)) % len(SINGLE)]])
        elif k == 1:
            recipe = formats.Recipe(rrng, only=[rrng.choice(SINGLE)])
        else:
            recipe = formats.Recipe(rrng)
        text = formats.render_rewrite(deck, recipe)
        desc = recipe.describe()
        if text == base_text:
            out.counters['identical_rewrites'] += 1
            continue
        if src == 'fortran' and not recipe.fortran_used:
            out.counters['fortran_not_applicable'] += 1
            continue
        run_v = ctx.convert(text, deck.cli)
        out.counters['rewrites'] += 1
        for feat in desc:
            out.counters[f'feat.{feat}'] += 1
        out.judged += 1
        structures.append(f'{case.cid}:{k}:{desc}')
        if not run_v.ok:
            mech = None
            if (src == 'fortran' and run_v.exc_type == 'ValueError'
                    and 'could not convert string to float' in run_v.exc_msg):
                mech = f'fortran-number-{recipe.fortran_field}'
            out.decks.append((f'rewrite {desc}', text, list(deck.cli)))
            out.violation('rewrite-rejected', f'{desc}: {run_v.brief()}',
                          mech=mech, recipe=desc)
            continue
        diff = formats.first_difference(base.output, run_v.output)
        if diff is not None and 'rho-any' in recipe.on:
            # density spellings outside C09's class may change composition
            # NAMES; compare the meaning instead
            view_a = formats.semantic_view(base.output)
            view_b = formats.semantic_view(run_v.output)
            out.counters['semantic_comparisons'] += 1
            if view_a is not None and view_a == view_b:
                diff = None
        if diff is not None:
            mech = None
            if src == 'fortran' and formats.first_difference(
                    base.output, run_v.output, fortran=True) is None:
                # the only differences are Fortran-spelled numbers copied
                # verbatim into the output
                mech = f'fortran-number-{recipe.fortran_field}'
            out.decks.append((f'rewrite {desc}', text, list(deck.cli)))
            out.violation('output-differs', {'recipe': desc, **diff},
                          mech=mech, recipe=desc)
    out.structures = structures
    out.nontrivial = bool(structures)
    out.sample = {'family': case.family,
                  'rewrite_head': text.split('\n')[:6] if structures else None}
    out.decks = out.decks[:3]
    return out
