'''C03 - macrobodies: interior, exterior and numbered facets.'''
import numpy as np

from .. import model as M
from .. import mcnp_ref as ref
from ..decks import probe_deck
from ..gen_surf import MACRO_FAMILIES, macrobody
from ..judge import convert_deck, crash_violation, region_agreement, summarise

ID = 'C03'
UPSTREAM_DECKS = True
LEVEL = 'exploration'
RULE = ('one generated macrobody card per case (every kind x family: aligned, '
        'rotated, left-handed, both RHP/REC/ELL parameterisations, ARB '
        'tetra/pyramid/wedge/hexahedron in both vertex orders); cells -b, +b '
        'and +b.k, -b.k for every facet; distinct = distinct (kind, rounded '
        'parameters); non-trivial = at least 200 judged probes')
ASSUMPTIONS = [
    'solids and facet numbering as in the MCNP manual (mcnp_ref.facets), '
    'outward side positive',
    'ELL with positive last entry: the repository\'s MCNP-validated reading is '
    'used (regression monitor for that sub-case only)',
    'RHP/HEX with 9 entries: the manual does not fix the sense in which the '
    'derived apothems s, t follow r; facets 3-6 are judged against both '
    'senses and must agree with one of them for every probe of the case '
    '(s at 60 and t at 120 degrees from r in the same sense, facets 3/5 at '
    'their tips, 4/6 opposite)',
    'TRC facet 1 is not judged beyond the apex of its cone',
    'TRIPOLI-4 conventions of vt/t4eval.py; TatSu shim',
]
ANCHORS = ['MacroBodies.py:box', 'MacroBodies.py:rpp', 'MacroBodies.py:sph',
           'MacroBodies.py:rcc', 'MacroBodies.py:rhp', 'MacroBodies.py:rec',
           'MacroBodies.py:trc', 'MacroBodies.py:ell', 'MacroBodies.py:wed',
           'MacroBodies.py:arb', 'to_surfaces_macro', 'pot_expand_surfs']
REQUIRED_REACH = ANCHORS

_PER = {'quick': 6, 'thorough': 250}


def plan(tier):
    out = [(f'{kind}|{fam}', _PER[tier])
           for kind, fams in MACRO_FAMILIES.items() for fam in fams]
    # every body kind once more with its cells (incl. facet references)
    # carried by a TRCL
    out += [(f'{kind}|{fams[-1]}+trcl', _PER[tier])
            for kind, fams in MACRO_FAMILIES.items()]
    return out


def facet_leaves(kind, params):
    nfac = ref.n_facets(kind, params)
    if kind in ('sph', 'ell'):
        return []
    facets = list(range(1, nfac + 1))
    leaves = []
    for k in facets:
        leaves.append(M.S(1, facet=k))
        leaves.append(M.S(-1, facet=k))
    return leaves


def build(case):
    kind, fam = case.family.split('|')
    with_trcl = fam.endswith('+trcl')
    fam = fam.replace('+trcl', '')
    params = macrobody(case.rng, kind, fam)
    sur = M.Surf(1, kind, params)
    leaves = [M.S(-1), M.S(1)] + facet_leaves(kind, params)
    facets = [lf for lf in leaves if lf[3] is not None]
    if facets:
        # facet references under a complement: #( b.k ), #( b.j : -b.k ) and
        # #n of a cell that is defined by a facet
        rng = case.rng
        fa, fb = rng.choice(facets), rng.choice(facets)
        leaves.append(M.NOT(fa))
        leaves.append(M.NOT(M.OR(fa, fb)))
        leaves.append(M.CELLC(3 + leaves.index(fb) - 2))
    # unions none of whose operands is a plain intersection of surfaces: the
    # outside of the body (itself a union of facets) cut by two spheres
    cen0 = [float(v) for v in params[0:3]]
    extra = [M.Surf(50, 's', [cen0[0] + 0.5, cen0[1], cen0[2], 6.0]),
             M.Surf(51, 's', [cen0[0], cen0[1] - 0.7, cen0[2] + 0.4, 7.5])]
    leaves.append(M.OR(M.AND(M.S(1), M.S(-50)), M.AND(M.S(1), M.S(-51))))
    if facets:
        leaves.append(M.OR(M.AND(M.S(1), M.S(-50)),
                           M.AND(M.NOT(M.AND(case.rng.choice(facets),
                                             M.S(50))), M.S(-51))))
    deck = probe_deck([sur] + extra, leaves, title=f'C03 {kind} {fam}')
    deck.tags.update({f'kind.{kind}', f'{kind}.{fam}'})
    deck.case_motion = None
    if with_trcl:
        from ..gen_surf import motion_of_class, tr_spec
        mot = motion_of_class(case.rng, case.rng.choice(['generic', 'quarter',
                                                         'translation']))
        form = 'inline3' if not (mot.b - np.eye(3)).any() else \
            case.rng.choice(['inline12', 'star'])
        for cel in deck.cells:
            if cel.id != 900:
                cel.trcl = tr_spec(case.rng, mot, form)
        deck.case_motion = mot
        deck.tags.add('c03.trcl')
    # hint: the centre region of the body and points around it
    cen = np.array(params[0:3], dtype=float)
    deck.hints = [cen + np.array(off) for off in
                  ((0, 0, 0), (1, 0, 0), (0, 1, 0), (0, 0, 1), (-1, -1, -1),
                   (2, 2, 2), (-2, 1, 3))]
    return deck


def unjudged_mask(deck):
    sur = deck.surfs[0]
    if sur.kind != 'trc':
        return None
    mot = getattr(deck, 'case_motion', None)
    if mot is not None:
        return lambda pts: ref.trc_beyond_apex(sur.params, mot.to_aux(pts))
    return lambda pts: ref.trc_beyond_apex(sur.params, pts)


def run(case, ctx):
    from ..core import Outcome
    out = Outcome()
    deck = build(case)
    out.tags |= deck.tags
    sur = deck.surfs[0]
    out.structure = f'{sur.kind}:{[round(float(v), 2) for v in sur.params]}'
    run_ = convert_deck(case, ctx, out, deck)
    if not run_.ok:
        crash_violation(out, run_)
        return out
    res = region_agreement(case, ctx, out, deck, run_, n_uniform=2500,
                           unjudged=unjudged_mask(deck))
    if res is None:
        return out
    sides, mism, pts, t4 = res
    if sur.kind in ('rhp', 'hex') and len(sur.params) == 9:
        out.counters['c03.rhp9-facets-3-6-judged'] += 1
        if mism:
            # the other sense of rotation of the derived apothems: the same
            # probes (a copy of the case, hence of its generator state)
            # judged against the mirrored reading
            import copy
            from ..core import Outcome as _Outcome
            ref.RHP9_SENSE = -1
            try:
                res2 = region_agreement(copy.deepcopy(case), ctx, _Outcome(),
                                        deck, run_, n_uniform=2500,
                                        unjudged=unjudged_mask(deck))
            finally:
                ref.RHP9_SENSE = 1
            if res2 is not None and not res2[1]:
                out.counters['c03.rhp9-other-sense-accepted'] += 1
                mism = []
    out.nontrivial = out.judged >= 200
    out.sample = {'card': ' '.join(sur.atoms()), 'cells': len(deck.cells) - 1,
                  'probes': int(len(pts))}
    if mism:
        cells = sorted({tuple(k) for m in mism for k in
                        map(tuple, m['expected'] + m['actual'])
                        if k[0] == 'v'})
        det = summarise(mism)
        det['cells_involved'] = [deck_cell_text(deck, c[1]) for c in cells[:8]]
        out.violation('body-or-facet', det, card=' '.join(sur.atoms()))
    return out


def deck_cell_text(deck, cid):
    try:
        return f'{cid}: ' + M.render_expr(deck.cell(cid).geom)
    except KeyError:
        return str(cid)
