'''C18 - conversion is deterministic and leaves no state between runs.'''
import hashlib
import os
import subprocess
import sys
import types

from .. import model as M
from .. import shim, core
from .. import gen_cells, gen_univ, gen_lat, gen_hostile, gen_mix
from . import c04, c08, c10, c17

ID = 'C18'
LEVEL = 'exploration'
RULE = ('history monitor: each case draws 3-6 decks (Boolean cells, '
        'universes, lattices, transformations, materials, hostile decks, with '
        'random options) plus 1-2 faulty decks, and converts them in ONE '
        'interpreter in a random order of length 6-40 in which every deck '
        'recurs; every recurrence must reproduce the first output of that '
        '(deck, options) byte for byte (header command-line echo excluded); '
        'each deck is also converted in fresh processes under PYTHONHASHSEED '
        '0, 1, 4242 and random (2 of them quick) and must give the same '
        'bytes; an audit hook records every file opened for writing, removed '
        'or renamed during a conversion; the input file\'s bytes and mtime '
        'are compared before/after; module globals, class attributes and '
        'function defaults of every t4_geom_convert.* / MIP.* module are '
        'fingerprinted before/after each conversion; distinct = distinct '
        'sequences; non-trivial = at least 3 recurrences judged')
ASSUMPTIONS = [
    'the third header line (command-line echo) is the only part allowed to '
    'differ; version and title lines are compared',
    'state fingerprints cover builtin containers and scalars reachable from '
    'module globals, class dictionaries and function defaults; the compiled '
    'TatSu grammar object is identified by type only',
]
ANCHORS = ['construct_volume_t4', 'extract_tr_surf_ids', 'VolumeT4.__str__',
           'writeT4Geometry', 'number_items', 'conversion', 'writeHeader',
           'Card.__init__']
REQUIRED_REACH = ['ConstructVolumeT4.py:construct_volume_t4',
                  'ConstructVolumeT4.py:extract_tr_surf_ids',
                  'main.py:conversion']
TIMEOUT_S = {'quick': 900, 'thorough': 5400}
_PER = {'quick': 32, 'thorough': 640}
_SEEDS = {'quick': ['0', 'random'], 'thorough': ['0', '1', '4242', 'random']}

AUDIT = {'on': False, 'events': []}
_HOOKED = []


def _audit(event, args):
    if not AUDIT['on']:
        return
    if event == 'open':
        path, mode, flags = (list(args) + [None, None, None])[:3]
        writing = False
        if isinstance(mode, str) and any(ch in mode for ch in 'wax+'):
            writing = True
        if isinstance(flags, int) and flags & (os.O_WRONLY | os.O_RDWR
                                               | os.O_CREAT | os.O_TRUNC
                                               | os.O_APPEND):
            writing = True
        if writing:
            AUDIT['events'].append(('write', str(path)))
    elif event in ('os.remove', 'os.rename', 'os.rmdir', 'os.mkdir',
                   'shutil.rmtree', 'os.truncate', 'os.chmod'):
        AUDIT['events'].append((event, str(args[0])))
    elif event == 'pickle.find_class':
        AUDIT['events'].append((event, str(args)))


def attach_monitors():
    if not _HOOKED:
        sys.addaudithook(_audit)
        _HOOKED.append(True)


def plan(tier):
    return [('history', _PER[tier]),
            ('cache-option', 3 if tier == 'quick' else 40),
            ('default-output-name', 4 if tier == 'quick' else 16)]


def run_default_name(case, ctx, out):
    '''Without -o the output goes to <input stem>.t4: the input file must not
    be touched, whatever it is called.'''
    import contextlib
    import io
    from t4_geom_convert.main import conversion, parse_args
    rng = case.rng
    text, opts, kind = rng.choice([d for d in draw_decks(case)])
    names = ['model.t4', 'deck.T4', 'model.inp', 'model', 'a.b.t4']
    name = names[case.index % len(names)] if case.index < 2 else \
        rng.choice(names)
    inp = os.path.join(ctx.workdir.path, name)
    with open(inp, 'w', encoding='utf-8', newline='') as fil:
        fil.write(text)
    # the output name may also reach the input through another directory
    # entry: a symbolic or a hard link standing where the output will go
    link = None
    if case.index % 2 == 1:
        link = ['symlink', 'hardlink'][(case.index // 2) % 2]
        if case.index >= 4:
            link = rng.choice(['symlink', 'hardlink'])
        os.remove(inp)
        # (a deck that certainly converts: the question is what gets written)
        plain = gen_cells.build(rng, rng.choice(['inter', 'partition',
                                                 'nested']))
        text, opts, kind = M.render(plain), list(plain.cli), 'cells'
        name = rng.choice(['model.inp', 'model', 'deck.imcnp'])
        inp = os.path.join(ctx.workdir.path, name)
        with open(inp, 'w', encoding='utf-8', newline='') as fil:
            fil.write(text)
        explicit = rng.random() < 0.5
        target = os.path.join(ctx.workdir.path, 'result.t4' if explicit else
                              os.path.splitext(name)[0] + '.t4')
        (os.symlink if link == 'symlink' else os.link)(inp, target)
        if explicit:
            opts = ['-o', target] + list(opts)
        name = f'{name} with a {link} as output'
    before = set(os.listdir(ctx.workdir.path))
    err = None
    try:
        with contextlib.redirect_stdout(io.StringIO()), \
                contextlib.redirect_stderr(io.StringIO()):
            conversion(parse_args([inp] + list(opts)))
    except (Exception, SystemExit) as exc:  # pylint: disable=broad-except
        err = repr(exc)[:200]
    with open(inp, encoding='utf-8', newline='') as fil:
        same = fil.read() == text
    out.judged += 1
    out.counters['default_name_runs'] += 1
    out.structure = f'default-name:{name}:{kind}'
    out.decks = [(f'{kind} saved as {name}', text, list(opts))]
    if not same:
        out.violation('input-modified', f'input file {name!r} converted '
                      f'without -o was overwritten (outcome: {err})')
    out.tags.add(f'output-alias.{link}')
    for fname in set(os.listdir(ctx.workdir.path)):
        path = os.path.join(ctx.workdir.path, fname)
        if os.path.isfile(path):
            os.remove(path)
    return out


CACHE_DECK = '''cache option: flagged plane moved by a TRCL
1 1 -1.5 -1 2 -3 4 -5 6 imp:n=1 trcl=({shift} 0 0)
2 0 -9 #1 imp:n=1
3 0 9 imp:n=0

{f1}1 px 5
2 px -5
{f3}3 py 5
4 py -5
5 pz 5
6 pz -5
9 so 60

m1 13027 1
'''


def run_cache(case, ctx, out):
    '''--cache is an option like any other: the second conversion of a deck,
    which reads what the first one cached next to the input, must write the
    same file as the first one and as a conversion without the option.'''
    rng = case.rng
    if case.index % 3 == 0:
        text = CACHE_DECK.format(shift=rng.choice([20, 13.5, -17]),
                                 f1=rng.choice('*+'),
                                 f3=rng.choice(['', '*', '+']))
        opts, kind = [], 'flagged surface of a TRCL cell'
    else:
        text, opts, kind = rng.choice(draw_decks(case))
    name = f'cache{case.index}'
    plain = ctx.convert(text, opts, name=name + 'p')
    if not plain.ok:
        out.skipped = 'deck-not-convertible'
        return out
    outputs = []
    for _ in range(2):
        run_ = ctx.convert(text, list(opts) + ['--cache'], name=name)
        if not run_.ok:
            out.violation('cache-run-failed', f'{kind}: {run_.brief()}')
            return out
        outputs.append(strip_header(run_.output))
    for fname in os.listdir(ctx.workdir.path):
        if fname.startswith(name) and fname.endswith('.cache'):
            os.remove(os.path.join(ctx.workdir.path, fname))
            out.counters['cache_files_removed'] += 1
    out.judged += 2
    out.counters['cache_pairs'] += 1
    out.structure = 'cache:' + hashlib.sha1(text.encode()).hexdigest()[:12]
    out.decks = [(f'{kind}', text, list(opts) + ['--cache'])]
    reference = strip_header(plain.output)

    def body(txt):
        '''The volumes with every surface number replaced by what the surface
        is, and the compositions: the geometry whatever the numbering.'''
        from .. import t4file
        t4 = t4file.parse(txt)
        defs = {sid: f'{sur.type} {sur.params} {sur.tr}'
                for sid, sur in t4.surfs.items()}
        vols = []
        for vid in t4.volu_order:
            vol = t4.volus[vid]
            vols.append((vid, tuple(sorted(defs.get(k, k) for k in vol.plus)),
                         tuple(sorted(defs.get(k, k) for k in vol.minus)),
                         str(vol.op), vol.fictive))
        return vols, str(t4.compositions), str(t4.geomcomp)
    for label, got in (('first', outputs[0]), ('second', outputs[1])):
        if got != reference:
            mech = None
            if label == 'second' and body(got) == body(reference) and \
                    got.count('ALL_COMPLETE') < reference.count('ALL_COMPLETE'):
                # the run that reads the cache no longer knows which of the
                # surfaces generated by a TRCL are flagged: their entries are
                # missing (and a flagged copy is not merged with its flagged
                # original, which changes numbers but not the geometry)
                mech = 'cache-second-run-drops-boundary-conditions'
            out.violation('cache-dependent-output', f'{kind}: the {label} '
                          'conversion with --cache differs from the '
                          'conversion without it', mech=mech,
                          diff=_first_diff(reference, got))
    return out


def _fp(obj, depth=0):
    '''Fingerprint of a value: builtin containers and scalars by content,
    anything else by type name.'''
    if depth > 4:
        return '...'
    if isinstance(obj, (int, float, str, bytes, bool, type(None), complex)):
        return repr(obj)
    if isinstance(obj, (list, tuple)):
        return type(obj).__name__ + '[' + ','.join(
            _fp(x, depth + 1) for x in obj[:200]) + f']#{len(obj)}'
    if isinstance(obj, (set, frozenset)):
        return 'set{' + ','.join(sorted(_fp(x, depth + 1) for x in
                                        list(obj)[:200])) + f'}}#{len(obj)}'
    if isinstance(obj, dict):
        items = list(obj.items())[:200]
        return 'dict{' + ','.join(f'{_fp(k, depth + 1)}:{_fp(v, depth + 1)}'
                                  for k, v in items) + f'}}#{len(obj)}'
    return f'<{type(obj).__module__}.{type(obj).__qualname__}>'


def state_snapshot():
    snap = {}
    for name, mod in list(sys.modules.items()):
        if mod is None or not name.startswith(('t4_geom_convert', 'MIP')):
            continue
        if 'UnitTests' in name or 'IntegrationTests' in name:
            continue
        for attr, val in list(vars(mod).items()):
            if attr.startswith('__') or isinstance(val, types.ModuleType):
                continue
            key = f'{name}.{attr}'
            if isinstance(val, types.FunctionType):
                if getattr(val, '__module__', None) == name:
                    snap[key + '.__defaults__'] = _fp(val.__defaults__)
                    snap[key + '.__kwdefaults__'] = _fp(val.__kwdefaults__)
            elif isinstance(val, type):
                if getattr(val, '__module__', None) != name:
                    continue
                for cattr, cval in list(vars(val).items()):
                    if cattr.startswith('__') and cattr != '__init__':
                        continue
                    if isinstance(cval, (types.FunctionType, staticmethod,
                                         classmethod)):
                        fun = getattr(cval, '__func__', cval)
                        snap[f'{key}.{cattr}.__defaults__'] = \
                            _fp(getattr(fun, '__defaults__', None))
                    elif not isinstance(cval, (property,
                                               types.MemberDescriptorType,
                                               types.GetSetDescriptorType)):
                        snap[f'{key}.{cattr}'] = _fp(cval)
            else:
                snap[key] = _fp(val)
    snap.update(interpreter_state())
    return snap


def interpreter_state():
    '''Settings of the interpreter and of the libraries the converter uses
    that outlive a conversion if somebody changes them: a later conversion in
    the same process would run under other conditions than a fresh one.'''
    import decimal
    import locale
    import warnings
    import numpy as np
    snap = {
        'interpreter.recursionlimit': repr(sys.getrecursionlimit()),
        'interpreter.cwd': os.getcwd(),
        'interpreter.environ': _fp(dict(os.environ)),
        'interpreter.sys.path': _fp(list(sys.path)),
        'interpreter.locale': repr(locale.getlocale()),
        'interpreter.decimal.prec': repr(decimal.getcontext().prec),
        'interpreter.warnings.filters': hashlib.sha1(
            repr([(f[0], str(f[1]), getattr(f[2], '__name__', f[2]),
                   str(f[3]), f[4]) for f in warnings.filters]
                 ).encode()).hexdigest(),
        'numpy.seterr': _fp(dict(np.geterr())),
        'numpy.printoptions': _fp({k: v for k, v in
                                   np.get_printoptions().items()
                                   if isinstance(v, (int, float, str, bool,
                                                     type(None)))}),
    }
    try:
        snap['interpreter.int_max_str_digits'] = repr(
            sys.get_int_max_str_digits())
    except AttributeError:
        pass
    return snap


def strip_header(text):
    lines = text.split('\n')
    if len(lines) > 2 and lines[2].startswith('// t4_geom_convert command'):
        del lines[2]
    return '\n'.join(lines)


class _Sub:
    def __init__(self, rng, family, index, tier, seed):
        self.rng = rng
        self.family = family
        self.index = index
        self.tier = tier
        self.seed = seed


def draw_decks(case):
    rng = case.rng
    makers = [
        lambda: gen_cells.build(rng, rng.choice(gen_cells.FAMILIES)),
        lambda: gen_univ.build(rng, rng.choice(gen_univ.FAMILIES)),
        lambda: gen_lat.build_rect(rng, rng.choice(gen_lat.RECT_FAMILIES)),
        lambda: gen_lat.build_hex(rng, rng.choice(gen_lat.HEX_FAMILIES)),
        lambda: gen_hostile.build(rng, rng.choice(gen_hostile.FAMILIES)),
        lambda: gen_mix.build(rng, rng.choice(gen_mix.FAMILIES)),
        lambda: c04.build(_Sub(rng, f'{rng.choice(c04.ATTACH)}|generic',
                               case.index, case.tier, case.seed)),
        lambda: c10.build(_Sub(rng, rng.choice(c10.FAMILIES[:-1]), case.index,
                               case.tier, case.seed)),
    ]
    def density_variants():
        # one material at one numerical density written in several spellings
        # that are NOT merged by the converter: several compositions whose
        # order must not depend on the hash seed
        deck = gen_cells.build(rng, rng.choice(['inter', 'partition',
                                                'shared']))
        val = rng.randint(2, 9)
        forms = [f'-{val}', f'-{val}.0', f'-{val}e0', f'-0.{val}e1',
                 f'-{val}0e-1', f'-{val}.', f'-{val}.0e+0', f'-{val}E0',
                 f'-0{val}']
        rng.shuffle(forms)
        solid = [c for c in deck.cells if int(c.mat) != 0]
        for cel, form in zip(solid, forms):
            cel.mat = 1
            cel.rho = form
        return deck
    makers.append(density_variants)

    def long_card():
        # one cell card with well over a hundred entries (the usual
        # "everything else" cell of a deck with many cells)
        from . import c01
        sub = _Sub(rng, 'many-operands', 0, case.tier, case.seed)
        deck = c01.build_many(sub, count=rng.choice([130, 150, 180]))
        return deck

    def deep_nesting():
        # parentheses nested about twenty levels deep
        deck = gen_cells.build(rng, 'inter')
        cel = next(c for c in deck.cells if not deck.importance_zero(c))
        geom = cel.geom
        for _ in range(rng.randint(12, 22)):
            geom = ('g', geom)
        cel.geom = geom
        return deck
    makers += [long_card, deep_nesting]
    from .c13 import upstream_decks
    ups = [d for d in upstream_decks() if len(d[1]) < 4000]

    class _Raw:
        def __init__(self, text, cli):
            self.text = text
            self.cli = cli
    raw_decks = []

    def upstream():
        name, text, opts = rng.choice(ups)
        return _Raw(text, list(opts))
    makers.append(upstream)
    decks = []
    forced = [density_variants]
    if case.index % 4 == 1:
        forced = [deep_nesting, long_card, density_variants]
    for _ in range(rng.randint(3, 6)):
        deck = (forced.pop() if forced else rng.choice(makers))()
        opts = list(deck.cli) + (c08.random_options(rng)
                                 if rng.random() < 0.6 else [])
        text = deck.text if isinstance(deck, _Raw) else M.render(deck)
        decks.append((text, opts, 'valid'))
    for _ in range(rng.randint(1, 2)):
        cls = rng.choice(c17.CLASSES)
        pair = c17.build_pair(_Sub(rng, cls, case.index, case.tier, case.seed))
        if pair is not None:
            decks.append((M.render(pair[1]), list(pair[1].cli), 'faulty'))
    return decks


def run(case, ctx):
    out = core.Outcome()
    rng = case.rng
    if case.family == 'cache-option':
        return run_cache(case, ctx, out)
    if case.family == 'default-output-name':
        shim.setup()
        return run_default_name(case, ctx, out)
    decks = draw_decks(case)
    order = list(range(len(decks))) * 2
    while len(order) < rng.randint(6, 40):
        order.append(rng.randrange(len(decks)))
    rng.shuffle(order)
    first = {}
    recurrences = 0
    workdir = ctx.workdir
    seq_desc = []
    for step, k in enumerate(order):
        text, opts, kind = decks[k]
        info = {}

        def before(inp, outp, _info=info):
            _info['stat'] = os.stat(inp).st_mtime_ns
            _info['listing'] = set(os.listdir(workdir.path))
            _info['state'] = state_snapshot()
            AUDIT['events'] = []
            AUDIT['on'] = True

        def after(inp, outp, _info=info, _text=text):
            AUDIT['on'] = False
            _info['events'] = list(AUDIT['events'])
            _info['stat2'] = os.stat(inp).st_mtime_ns
            with open(inp, encoding='utf-8', newline='') as fil:
                _info['same_bytes'] = fil.read() == _text
            _info['listing2'] = set(os.listdir(workdir.path))
            _info['state2'] = state_snapshot()
            _info['inp'], _info['out'] = inp, outp
        run_ = ctx.convert(text, opts, name=f'deck{k}', before=before,
                           after=after)
        seq_desc.append(f'{k}{"!" if not run_.ok else ""}')
        out.counters['conversions_in_sequence'] += 1
        # (c) files
        out.judged += 1
        writes = [(evt, path) for evt, path in info['events']]
        foreign = [(evt, path) for evt, path in writes
                   if os.path.realpath(path) != os.path.realpath(info['out'])]
        out.counters['audit_events'] += len(writes)
        if foreign:
            out.violation('foreign-file-access', f'step {step}: {foreign[:4]}')
        if not info['same_bytes'] or info['stat'] != info['stat2']:
            out.violation('input-modified', f'step {step}: input file of deck '
                          f'{k} changed during the conversion')
        created = info['listing2'] - info['listing'] - \
            {os.path.basename(info['out'])}
        if created:
            out.violation('stray-file', f'step {step}: {sorted(created)}')
        # (d) module state
        if info['state'] != info['state2']:
            changed = [key for key in info['state2']
                       if info['state'].get(key) != info['state2'][key]]
            changed += [key for key in info['state'] if key not in
                        info['state2']]
            out.violation('module-state-changed', f'step {step} (deck {k}, '
                          f'{kind}): {changed[:6]}')
        out.counters['state_keys_compared'] += len(info['state2'])
        # (b) recurrences
        result = strip_header(run_.output) if run_.ok else \
            f'EXC {run_.exc_type}: {run_.exc_msg}'
        if k not in first:
            first[k] = result
        else:
            recurrences += 1
            out.judged += 1
            if result != first[k]:
                out.violation('history-dependent-output',
                              f'step {step}: deck {k} ({kind}, options '
                              f'{opts}) differs from its first conversion in '
                              f'this interpreter; sequence so far '
                              f'{" ".join(seq_desc)}',
                              diff=_first_diff(first[k], result))
        for path in (info['inp'], info['out']):
            if os.path.exists(path):
                os.remove(path)
    out.counters['recurrences'] += recurrences
    # (a) fresh processes under different hash seeds
    for k, (text, opts, kind) in enumerate(decks):
        if kind != 'valid' or k not in first or first[k].startswith('EXC'):
            continue
        inp = os.path.join(workdir.path, f'fresh{k}.imcnp')
        with open(inp, 'w', encoding='utf-8', newline='') as fil:
            fil.write(text)
        for hseed in _SEEDS[case.tier]:
            outp = os.path.join(workdir.path, f'fresh{k}.t4')
            if os.path.exists(outp):
                os.remove(outp)
            env = dict(os.environ)
            if hseed == 'random':
                env.pop('PYTHONHASHSEED', None)
                env['PYTHONHASHSEED'] = str(rng.randrange(1, 2**31))
            else:
                env['PYTHONHASHSEED'] = hseed
            proc = subprocess.run([sys.executable, '-m', 'vt.oneshot', '-o',
                                   outp, inp] + opts, env=env, cwd=core.VERIF,
                                  capture_output=True, text=True, timeout=300)
            out.counters['fresh_processes'] += 1
            out.judged += 1
            if proc.returncode != 0 or not os.path.exists(outp):
                out.violation('fresh-process-failed', f'deck {k} options '
                              f'{opts} hash seed {env["PYTHONHASHSEED"]}: '
                              f'{proc.stderr[-300:]}')
                continue
            with open(outp, encoding='utf-8') as fil:
                fresh = strip_header(fil.read())
            if fresh != first[k]:
                out.violation('process-dependent-output',
                              f'deck {k} options {opts}: fresh process with '
                              f'PYTHONHASHSEED={env["PYTHONHASHSEED"]} differs '
                              'from the in-process output',
                              diff=_first_diff(first[k], fresh))
            os.remove(outp)
        os.remove(inp)
    out.structure = hashlib.sha1(('|'.join(d[0] for d in decks)
                                  + str(order)).encode()).hexdigest()[:16]
    out.nontrivial = recurrences >= 3
    out.sample = {'sequence': ' '.join(seq_desc), 'decks': len(decks),
                  'options': [d[1] for d in decks][:3]}
    out.decks = [(f'deck{k} ({d[2]})', d[0], d[1])
                 for k, d in enumerate(decks)][:4]
    return out


def _first_diff(a, b):
    la, lb = a.split('\n'), b.split('\n')
    for i, (x, y) in enumerate(zip(la, lb)):
        if x != y:
            return {'line': i, 'first': x[:200], 'second': y[:200]}
    return {'line': min(len(la), len(lb)), 'lengths': (len(la), len(lb))}
