'''C12 - exactly the zero-importance cells are left out.'''
import re

from .. import model as M
from ..decks import WORLD_SURF
from ..judge import convert_deck, crash_violation

ID = 'C12'
UPSTREAM_DECKS = 'all'
UPSTREAM_POINTS = False
LEVEL = 'exploration'
RULE = ('decks of 4-14 nested spherical shells (all non-empty) whose '
        'importances come from cell-card keywords (one or several particle '
        'types, imp:n,p), from IMP data cards (one or several cards, nR/nM/nI '
        'shorthand), from both, with zero cells first/middle/last/several, '
        'cells zero for one particle only, and LIKE n BUT cells changing the '
        'importance; distinct = distinct (importance spelling, zero pattern); '
        'non-trivial = at least one zero and one non-zero cell')
ASSUMPTIONS = [
    'importance of a cell = IMP keyword(s) on its card if present (a later '
    'keyword for the same particles overrides, as in LIKE n BUT), else the '
    'entry of the IMP data cards at the cell\'s position; zero = zero for '
    'every particle type listed',
    'every generated cell is geometrically non-empty, so "converted" can be '
    'read off the VOLU numbers',
]
ANCHORS = ['parse_importance_cards', 'parse_keywords', 'parse_all_cells',
           'get_cell_importances', 'expand_data_card', 'writeT4Geometry',
           'construct_volume_t4']
REQUIRED_REACH = ['ParseMCNPCell.parse_importance_cards',
                  'ParseMCNPCell.parse_keywords',
                  'datacard.py:expand_data_card']
FAMILIES = ['cell-cards', 'cell-cards-np', 'data-n', 'data-np-two-cards',
            'data-np-one-card', 'shorthand-r', 'shorthand-m', 'shorthand-i',
            'mixed-sources', 'one-particle-zero-cell', 'one-particle-zero-data',
            'filled-cells', 'extra-keywords',
            'zero-first', 'zero-last', 'all-but-one-zero', 'like-but-imp0',
            'like-but-imp1', 'like-data-card', 'like-but-regrouped',
            'cell-cards-fortran', 'ilog-shorthand']
_PER = {'quick': 10, 'thorough': 3000}


def attach_monitors():
    from .. import monitors
    monitors.attach_contracts()


def monitor_counts():
    from .. import monitors
    return dict(monitors.COUNTS)


def plan(tier):
    return [(fam, _PER[tier]) for fam in FAMILIES]


def shells(rng, count):
    '''count nested shells around the origin; returns surfaces and
    geometries.'''
    radii = []
    rad = 0.8
    for _ in range(count):
        rad += rng.uniform(0.4, 0.9)
        radii.append(round(rad, 3))
    surfs = [M.Surf(k + 1, 'so', [r]) for k, r in enumerate(radii)]
    geoms = [M.S(-1)] + [M.AND(M.S(k), M.S(-(k + 1)))
                         for k in range(1, count)]
    return surfs, geoms, radii[-1]


def build(case):
    rng = case.rng
    fam = case.family
    ncell = rng.randint(4, 14)
    surfs, geoms, outer = shells(rng, ncell)
    deck = M.Deck(f'C12 {fam}')
    deck.surfs = surfs
    # which cells are zero
    zeros = set(rng.sample(range(ncell), rng.randint(1, max(1, ncell // 3))))
    if fam == 'zero-first':
        zeros.add(0)
    elif fam == 'zero-last':
        zeros.add(ncell - 1)
    elif fam == 'all-but-one-zero':
        zeros = set(range(ncell)) - {rng.randrange(ncell)}
    vals = ['0' if k in zeros else str(rng.choice([1, 1, 2, 4, 0.5]))
            for k in range(ncell)]
    for k, geom in enumerate(geoms):
        mat = rng.randint(1, 2)
        deck.cells.append(M.Cell(k + 1, mat=mat, rho=f'-{mat}.5', geom=geom))
    outside = M.Cell(ncell + 1, mat=0, geom=M.S(ncell))
    deck.cells.append(outside)
    all_vals = vals + ['0']
    cells = deck.cells

    def on_cards(parts_list):
        for cel, val in zip(cells, all_vals):
            cel.imp = {}
            for parts in parts_list:
                cel.imp[parts] = val

    if fam in ('cell-cards', 'zero-first', 'zero-last', 'all-but-one-zero'):
        on_cards(['n'])
    elif fam == 'cell-cards-np':
        on_cards(rng.choice([['n', 'p'], ['n,p'], ['p', 'n', 'e']]))
    elif fam == 'data-n':
        deck.imp_cards.append(('n', all_vals))
    elif fam == 'data-np-two-cards':
        deck.imp_cards.append(('n', all_vals))
        deck.imp_cards.append(('p', all_vals))
    elif fam == 'data-np-one-card':
        deck.imp_cards.append(('n,p', all_vals))
    elif fam.startswith('shorthand'):
        deck.imp_cards.append(('n', shorthand(rng, fam[-1], ncell + 1)))
    elif fam == 'mixed-sources':
        deck.imp_cards.append(('n', all_vals))
        for cel, val in zip(cells, all_vals):
            if rng.random() < 0.4:
                # the card overrides the data card with another value
                other = '0' if val != '0' and rng.random() < 0.5 else \
                    rng.choice(['1', '3'])
                cel.imp = {'n': other}
    elif fam == 'one-particle-zero-cell':
        for cel, val in zip(cells, all_vals):
            cel.imp = {'n': val, 'p': val}
        for k in rng.sample(range(ncell), 2):
            # zero for neutrons only: the cell must be kept
            cells[k].imp = {'n': '0', 'p': '1'} if rng.random() < 0.5 else \
                {'n': '1', 'p': '0'}
    elif fam == 'one-particle-zero-data':
        nvals = list(all_vals)
        pvals = list(all_vals)
        for k in rng.sample(range(ncell), 2):
            nvals[k], pvals[k] = ('0', '2') if rng.random() < 0.5 else ('1', '0')
        deck.imp_cards.append(('n', nvals))
        deck.imp_cards.append(('p', pvals))
    elif fam in ('like-but-imp0', 'like-but-imp1'):
        on_cards(['n'])
        base = rng.choice([c for c in cells[:ncell]])
        new = base.copy()
        new.id = ncell + 2
        new.like = base.id
        new.but = ['imp']
        want_zero = fam == 'like-but-imp0'
        if want_zero:
            base.imp = {'n': '1'}
            new.imp = {'n': '0'}
        else:
            base.imp = {'n': '0'}
            new.imp = {'n': '2'}
        deck.cells.append(new)
        deck.tags.add('like.imp')
    if fam == 'like-but-regrouped':
        # the BUT list names the particle types in another grouping than the
        # copied cell: IMP:N,P=1 against IMP:N=0 IMP:P=0, IMP:P,N=0, ...
        groupings = [{'n,p': None}, {'n': None, 'p': None}, {'p,n': None}]
        for cel, val in zip(cells, all_vals):
            cel.imp = {'n,p': val}
        nlike = rng.randint(1, 3)
        for k in range(nlike):
            base = rng.choice(cells[:ncell])
            shape0 = rng.choice(groupings)
            base.imp = {parts: rng.choice(['1', '2']) for parts in shape0}
            new = base.copy()
            new.id = ncell + 2 + k
            new.like = base.id
            shape1 = rng.choice([g for g in groupings if g != shape0])
            want_zero = rng.random() < 0.7
            new.imp = {parts: '0' for parts in shape1}
            if not want_zero:
                first = next(iter(new.imp))
                new.imp[first] = '3'
            new.but = ['imp', 'trcl']
            from ..gen_surf import tr_spec
            from ..mcnp_ref import Motion
            new.trcl = tr_spec(rng, Motion([30.0 + 25.0 * k, 0.0, 0.0]),
                               'inline3')
            deck.cells.append(new)
        deck.tags.add('like.imp-regrouped')
    if fam == 'cell-cards-fortran':
        # Fortran spellings of the value of the IMP keyword
        on_cards(['n'])
        zero_forms = ['0d0', '0.0D+00', '0+0', '0.-0', '0e0']
        live_forms = ['1d0', '2.5D-1', '5-1', '1+0', '1.0E+00', '.5d0']
        for cel, val in zip(cells, all_vals):
            cel.imp = {'n': rng.choice(zero_forms if float(val) == 0
                                       else live_forms)}
    if fam == 'ilog-shorthand':
        # logarithmic interpolation, with and without a count
        total = ncell + 1
        for _ in range(50):
            nlog = rng.choice([0, 1, 1, 2])        # 0 = bare 'ilog'
            lead = rng.randint(0, max(0, total - nlog - 3))
            toks = [rng.choice(['1', '2', '0.5']) for _ in range(lead + 1)]
            toks.append(('' if nlog == 0 else str(nlog))
                        + rng.choice(['ilog', 'ILOG', 'log']))
            toks.append(rng.choice(['8', '16', '64']))
            count = lead + 1 + max(nlog, 1) + 1
            if count > total - 1:
                continue
            toks += [rng.choice(['1', '0', '4']) for _ in
                     range(total - 1 - count)]
            toks.append('0')
            vals = M.expand_shorthand(toks)
            if len(vals) == total and any(v == 0 for v in vals[:-1]):
                break
        else:
            toks = ['1', 'ilog', '4'] + ['0'] * (total - 3)
        for cel in cells:
            cel.imp = None
        deck.imp_cards.append(('n', toks))
    if fam == 'like-data-card':
        # LIKE cells that take their importance from the IMP data card, at
        # their own position in the cell block - not at the position of the
        # cell they copy
        from ..gen_surf import tr_spec
        from ..mcnp_ref import Motion
        vals_by_cell = dict(zip([c.id for c in cells], all_vals))
        nlike = rng.randint(1, 3)
        for k in range(nlike):
            base = rng.choice(cells[:ncell])
            new = base.copy()
            new.id = ncell + 2 + k
            new.like = base.id
            new.but = ['trcl']
            shift = [30.0 + 25.0 * k, 0.0, 0.0]
            new.trcl = tr_spec(rng, Motion(shift), 'inline3')
            new.imp = None
            # the opposite zero-ness of the copied cell, mostly
            base_zero = vals_by_cell[base.id] == '0'
            val = rng.choice(['1', '2']) if base_zero else '0'
            if rng.random() < 0.2:
                val = vals_by_cell[base.id]
            pos = rng.randint(cells.index(base) + 1, len(cells))
            cells.insert(pos, new)
            all_vals.insert(pos, val)
            vals_by_cell[new.id] = val
        for cel in cells:
            cel.imp = None
        deck.imp_cards.append(('n', list(all_vals)))
        deck.tags.add('like.data-card')
    if fam == 'extra-keywords':
        # other legal cell parameters that have nothing to do with the
        # geometry conversion
        on_cards(['n'])
        pool = ['vol=4.2', 'tmp=2.53e-8', 'ext:n=0', 'fcl:n=0', 'pwt=-1',
                'nonu=1', 'nonu=0', 'unc:n=1', 'elpt:n=1e-3', 'dxc1:n=0.5',
                'VOL=1', 'pd1:n=1', 'wwn1:n=0.5', 'bflcl=0', 'cosy=1']
        for cel in cells[:ncell]:
            if rng.random() < 0.7:
                cel.extra_opts = rng.sample(pool, rng.randint(1, 3))
    if fam == 'filled-cells':
        # level-0 cells that carry a FILL: the pieces generated from the
        # filling universe must follow the importance of the filled cell
        on_cards(['n']) if rng.random() < 0.5 else \
            deck.imp_cards.append(('n', all_vals))
        deck.surfs.append(M.Surf(101, 'px', [0.1]))
        deck.cells.append(M.Cell(201, mat=1, rho='-1.5', geom=M.S(-101),
                                 imp={'n': '1'}, u=7))
        deck.cells.append(M.Cell(202, mat=2, rho='-2.5', geom=M.S(101),
                                 imp={'n': '1'}, u=7))
        if deck.imp_cards:
            # data cards are positional: universe cells need entries too
            parts, toks = deck.imp_cards[0]
            deck.imp_cards[0] = (parts, list(toks) + ['1', '1'])
            for cel in deck.cells[-2:]:
                cel.imp = None
        if not deck.imp_cards and rng.random() < 0.6:
            # the importance of universe cells does not decide anything
            for cel in rng.sample(deck.cells[-2:], rng.randint(1, 2)):
                cel.imp = {'n': '0'}
        if rng.random() < 0.4:
            # two levels: the cells of universe 7 are themselves filled, and
            # have zero importance (they are not level-0 cells: what is
            # converted is decided by the level-0 cell alone)
            deck.surfs.append(M.Surf(102, 'py', [0.2]))
            deck.cells.append(M.Cell(301, mat=1, rho='-1.5', geom=M.S(-102),
                                     imp={'n': '1'}, u=8))
            deck.cells.append(M.Cell(302, mat=2, rho='-2.5', geom=M.S(102),
                                     imp={'n': '1'}, u=8))
            mids = [c for c in deck.cells if c.u == 7]
            for cel in mids:
                cel.fill = M.Fill(universe=8)
            if deck.imp_cards:
                parts, toks = deck.imp_cards[0]
                toks = list(toks)
                toks[-2:] = ['0', '0']
                deck.imp_cards[0] = (parts, toks + ['1', '1'])
                for cel in deck.cells[-2:]:
                    cel.imp = None
            else:
                for cel in mids:
                    cel.imp = {'n': '0'}
            deck.tags.add('imp.nested-zero-intermediate')
        hosts = rng.sample(range(ncell), min(ncell, rng.randint(2, 4)))
        if not any(k in zeros for k in hosts):
            hosts[0] = sorted(zeros)[0]
        for k in hosts:
            cells[k].fill = M.Fill(universe=7)
        deck.tags.add('imp.filled')
    for mat in (1, 2):
        deck.mats.append(M.Material(mat, [('13027', '1')]))
    deck.tags.add(f'c12.{fam}')
    if rng.random() < 0.15:
        M.add_unrelated_cards(deck, rng)
    return deck


def shorthand(rng, kind, total):
    '''A token list with shorthand that expands to `total` values (the last
    one being the outside world = 0).'''
    for _ in range(200):
        toks = []
        while True:
            length = len(M.expand_shorthand(toks)) if toks else 0
            if length >= total - 1:
                break
            roll = rng.random()
            if not toks or roll < 0.4:
                toks.append(rng.choice(['1', '0', '2', '1', '4']))
            elif kind == 'r':
                toks.append(rng.choice(['r', '2r', '3R']))
            elif kind == 'm':
                toks.append(rng.choice(['2m', '0.5m', '0m', '2M']))
            else:
                if toks[-1].lower().endswith(('i', 'r', 'm')):
                    toks.append('1')
                    continue
                base = float(toks[-1])
                npts = rng.randint(1, 2)
                toks.append(f'{npts}i' if rng.random() < 0.8 else f'{npts}I')
                toks.append(str(int(base + (npts + 1) * rng.choice([1, 2]))))
        vals = M.expand_shorthand(toks)
        if len(vals) == total - 1 and any(v == 0 for v in vals) and \
                any(v != 0 for v in vals):
            return toks + ['0']
    vals = ['1'] * (total - 2) + ['0', '0']
    return vals


NOTE_RE = re.compile(r'importance is equal to zero:\s*\[([^\]]*)\]')


def upstream_judge(out, deck, sides, t4, name, run_=None):
    '''The repository's example decks: no volume comes from a level-0 cell
    of zero importance, and the end-of-run note lists exactly those cells.
    (Whether a live cell is converted is judged by the region oracle under
    the deck's own property: an example deck may hold empty cells.)'''
    level0 = [c for c in deck.cells if not c.u]
    try:
        zero = [c.id for c in level0 if deck.importance_zero(c)]
    except (ValueError, IndexError, TypeError):
        out.counters['upstream_importance_not_understood'] += 1
        return
    written = {(vol.chain[-1][1] if vol.chain else vid)
               for vid, vol in t4.volus.items() if not vol.fictive}
    out.judged += len(level0)
    out.counters['cells_judged'] += len(level0)
    out.counters['zero_cells'] += len(zero)
    extra = sorted(written & set(zero))
    if extra:
        out.violation('zero-cell-converted', f'{name}: cells {extra} have '
                      'zero importance but were converted')
    match = NOTE_RE.search(run_.stdout)
    noted = []
    if match:
        noted = [int(tok) for tok in match.group(1).split(',') if tok.strip()]
    level0_ids = {c.id for c in level0}
    uni_zero = set()
    for cel in deck.cells:
        if cel.u:
            try:
                if deck.importance_zero(cel):
                    uni_zero.add(cel.id)
            except (ValueError, IndexError, TypeError):
                pass
    noted0 = [n for n in noted if n in level0_ids]
    stray = [n for n in noted if n not in level0_ids and n not in uni_zero]
    if noted0 != zero or stray:
        out.violation('note-list', f'{name}: NOTE lists {noted}, '
                      f'zero-importance level-0 cells in card order are '
                      f'{zero}')


def run(case, ctx):
    from ..core import Outcome
    out = Outcome()
    deck = build(case)
    out.tags |= deck.tags
    out.structure = (case.family + '|' + ';'.join(
        f'{c.id}:{c.imp}' for c in deck.cells) + '|' + str(deck.imp_cards))
    run_ = convert_deck(case, ctx, out, deck)
    if not run_.ok:
        if run_.exc_type == 'ValueError' and 'max()' in run_.exc_msg and \
                all(deck.importance_zero(c) for c in deck.cells if not c.u):
            # every level-0 cell has zero importance: there is nothing to
            # convert and the converter stops for lack of volumes
            out.skipped = 'all-cells-zero-importance'
            return out
        crash_violation(out, run_)
        return out
    t4, _probs = ctx.parse(run_)
    level0 = [c for c in deck.cells if not c.u]
    zero = [c.id for c in level0 if deck.importance_zero(c)]
    live = [c.id for c in level0 if not deck.importance_zero(c)]
    out.nontrivial = bool(zero) and bool(live)
    # a volume generated from a filled cell is owned by the outermost
    # container of its provenance chain
    written = {(vol.chain[-1][1] if vol.chain else vid)
               for vid, vol in t4.volus.items() if not vol.fictive}
    out.judged += len(deck.cells)
    out.counters['cells_judged'] += len(deck.cells)
    out.counters['zero_cells'] += len(zero)
    mech = None
    missing = sorted(set(live) - written)
    extra = sorted(written & set(zero))
    foreign = sorted(written - set(live) - set(zero))
    if missing:
        out.violation('live-cell-omitted', f'cells {missing} have non-zero '
                      'importance but no volume', mech=mech)
    if extra:
        out.violation('zero-cell-converted', f'cells {extra} have zero '
                      'importance but were converted', mech=mech)
    if foreign:
        out.violation('foreign-volume', f'non-virtual volumes {foreign}')
    match = NOTE_RE.search(run_.stdout)
    noted = []
    if match:
        noted = [int(tok) for tok in match.group(1).split(',') if tok.strip()]
    out.counters['note_lines'] += 1 if match else 0
    # the statement is about level-0 cells; zero-importance cells of
    # universes may be listed as well, nothing else
    level0_ids = {c.id for c in level0}
    uni_zero = {c.id for c in deck.cells if c.u and deck.importance_zero(c)}
    noted0 = [n for n in noted if n in level0_ids]
    stray = [n for n in noted if n not in level0_ids and n not in uni_zero]
    if noted0 != zero or stray:
        out.violation('note-list', f'NOTE lists {noted}, zero-importance '
                      f'level-0 cells in card order are {zero}')
    out.sample = {'cells': [' '.join(M.cell_atoms(deck, c))
                            for c in deck.cells[:3]],
                  'imp_cards': [f'imp:{p} ' + ' '.join(map(str, t))
                                for p, t in deck.imp_cards],
                  'zero': zero, 'written': sorted(written)}
    return out
