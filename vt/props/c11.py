'''C11 - cell expressions denote the Boolean function MCNP assigns to them.

The real path MIP(file) -> Card.parts() (cellcard.split) -> get_ast
(normalize + geom.ebnf + GeomSemantics) -> CellConversion.pot_complement is
driven with expression strings printed from my own AST; the resulting tree
is evaluated on all 2^n sense assignments and compared with the AST's truth
table.'''
import itertools
import os

from .. import model as M
from .. import shim

ID = 'C11'
LEVEL = 'exploration'
RULE = ('core: ALL expression trees with up to K leaves (K=3 quick, K=4 '
        'thorough) over {intersection, union, #( ) on internal nodes} with '
        'leaf k drawn from {+s_k, -s_k, #c_k}, printed under 4 spacing '
        'policies (plain; blanks around colon and inside parentheses; + signs '
        'and double blanks; every internal node parenthesised with adjacent '
        ')( and #n#m glued); plus random trees up to 12 leaves with facet '
        'literals s.k and n-ary operators; plus complete decks (e2e) whose '
        'cells are such trees over planes, spheres, RPP and RCC facets, half '
        'of them moved by a TRCL, judged by the region oracle; every string '
        'sits in a real cell '
        'card with options so that cellcard.split decides where geometry '
        'ends; distinct = distinct strings; non-trivial = at least 2 leaves')
ASSUMPTIONS = [
    'MCNP: blank = intersection, binds tighter than colon = union; #n = '
    'complement of cell n; #( ) = complement of the expression; adjacent '
    'parentheses and glued #n#m are implicit intersections',
    'only glued forms of # are generated (#n, #(...)); a blank between # and '
    'its operand is not claimed to be MCNP syntax',
    'TatSu 5.24 + harness-side shim (self-checked on an independent grammar)',
]
ANCHORS = ['parsegeom.py:normalize', 'parsegeom.py:get_ast',
           'GeomSemantics.operand', 'GeomSemantics.isect',
           'GeomSemantics.union', 'GeomExpression.inverse',
           'cellcard.py:split', 'CellConversion.pot_complement']
REQUIRED_REACH = ['parsegeom.py:normalize', 'parsegeom.py:get_ast',
                  'semantics.py:GeomExpression.inverse', 'cellcard.py:split',
                  'CellConversion.pot_complement']
EXHAUSTIVE = staticmethod(lambda tier, tot: tot['skipped'].get('budget', 0) == 0)

BATCH = 150
# base cells for #n references: number -> expression over surfaces 7, 8, 9
BASE_CELLS = {
    21: M.AND(M.S(7), M.S(-8)),
    22: M.OR(M.S(-7), M.AND(M.S(8), M.S(9))),
    # #22 (the complement of a union) as a direct operand of an intersection,
    # and the dual; then cells that complement those cells again
    23: M.AND(M.S(-9), M.CELLC(22)),
    24: M.OR(M.S(9), M.CELLC(21)),
    25: M.AND(M.CELLC(21), M.S(-9)),
    26: M.AND(M.CELLC(23), M.S(8), M.CELLC(24)),
    # long cell numbers whose prefixes are cell numbers too and whose
    # remaining digits are surface numbers
    12345: M.OR(M.S(7), M.S(-9)),
    123456: M.AND(M.S(-7), M.S(8)),
    1234567: M.OR(M.AND(M.S(7), M.S(9)), M.S(-8)),
    2167: M.AND(M.S(8), M.S(-9)),
}
POLICIES = {
    'plain': {},
    'airy': {'union': ' : ', 'in_par': ' '},
    'signed': {'plus': '+', 'isect': '  '},
    'tight': {'tight': True, 'parens_all': True},
}
OPTION_TAILS = ['imp:n=1', 'imp:n=1 u=3', 'IMP:N=1 $ comment', 'imp:n 1',
                'u=2 imp:n,p=1', 'imp:p=1 imp:n=0.5']


# --------------------------------------------------------------------------
# enumeration of the core
# --------------------------------------------------------------------------
def shapes(nleaves):
    '''All binary tree shapes with `nleaves` leaves, as nested tuples of
    None.'''
    if nleaves == 1:
        return [None]
    out = []
    for left in range(1, nleaves):
        for lsh in shapes(left):
            for rsh in shapes(nleaves - left):
                out.append((lsh, rsh))
    return out


def count_internal(shape):
    if shape is None:
        return 0
    return 1 + count_internal(shape[0]) + count_internal(shape[1])


def core_size(maxleaves):
    total = 0
    for nl in range(1, maxleaves + 1):
        for shape in shapes(nl):
            nint = count_internal(shape)
            total += (2 ** nint) * (2 ** nint) * (3 ** nl)
    return total


def core_items(maxleaves):
    '''Yield every core expression (my AST).'''
    leaf_choices = []
    for k in range(4):
        sid = k + 1
        leaf_choices.append([M.S(sid), M.S(-sid), M.CELLC(21 + k)])
    for nl in range(1, maxleaves + 1):
        for shape in shapes(nl):
            nint = count_internal(shape)
            for ops in itertools.product('*:', repeat=nint):
                for nots in itertools.product((False, True), repeat=nint):
                    for leaves in itertools.product(*leaf_choices[:nl]):
                        yield _fill(shape, list(ops), list(nots), list(leaves))


def _fill(shape, ops, nots, leaves):
    def rec(node):
        if node is None:
            return leaves.pop(0)
        op = ops.pop(0)
        neg = nots.pop(0)
        left = rec(node[0])
        right = rec(node[1])
        expr = (op, left, right)
        return M.NOT(expr) if neg else expr
    return rec(shape)


def render(expr, style):
    '''Printer with the spacing policies of this check (a superset of
    model.render_expr: can parenthesise every internal node).'''
    if not style.get('parens_all'):
        return M.render_expr(expr, style)

    def rec(node):
        kind = node[0]
        if kind in ('s', '^'):
            return M.render_expr(node, style)
        if kind == '#':
            return '#(' + rec_inner(node[1]) + ')'
        return '(' + rec_inner(node) + ')'

    def rec_inner(node):
        kind = node[0]
        if kind in ('s', '^', '#'):
            return rec(node)
        parts = [rec(sub) for sub in node[1:]]
        if kind == ':':
            return ':'.join(parts)
        out = parts[0]
        for prev, cur in zip(parts, parts[1:]):
            # implicit intersections: ')(' , ')#' and '#21#22'
            glue = (prev.endswith(')') and cur[0] in '(#') or \
                (prev.startswith('#') and prev[1:].isdigit()
                 and cur.startswith('#'))
            out += cur if glue else ' ' + cur
        return out
    return rec_inner(expr)


# --------------------------------------------------------------------------
# truth tables
# --------------------------------------------------------------------------
def atoms_of(expr, acc):
    kind = expr[0]
    if kind == 's':
        acc.add((expr[1], expr[3]))
    elif kind == '^':
        atoms_of(BASE_CELLS[expr[1]], acc)
    elif kind == '#':
        atoms_of(expr[1], acc)
    else:
        for sub in expr[1:]:
            atoms_of(sub, acc)
    return acc


def truth(expr, sense):
    kind = expr[0]
    if kind == 's':
        val = sense[(expr[1], expr[3])]
        return val if expr[2] > 0 else not val
    if kind == '^':
        return not truth(BASE_CELLS[expr[1]], sense)
    if kind == '#':
        return not truth(expr[1], sense)
    if kind == '*':
        return all(truth(sub, sense) for sub in expr[1:])
    return any(truth(sub, sense) for sub in expr[1:])


def eval_converted(tree, sense):
    '''Evaluate the converter's post-complement tree: tuples (op, a, b) with
    op in * : and Surface leaves.'''
    if isinstance(tree, (tuple, list)):
        op = tree[0]
        if op == '*':
            return all(eval_converted(sub, sense) for sub in tree[1:])
        if op == ':':
            return any(eval_converted(sub, sense) for sub in tree[1:])
        raise ValueError(f'operator {op!r} left in the converted tree')
    sid = tree.surface
    val = sense[(abs(sid), tree.sub)]
    return val if sid > 0 else not val


# --------------------------------------------------------------------------
# driving the real code
# --------------------------------------------------------------------------
def parse_cells(workdir, cards):
    '''Write a deck holding the base cells and the given test cards
    (number -> (geometry string, tail)), parse it with the repository's
    MIP + ParseMCNPCell and apply pot_complement.  Returns number -> tree.'''
    from MIP import mip
    from t4_geom_convert.Kernel.FileHandlers.Parser.ParseMCNPCell import \
        ParseMCNPCell
    from t4_geom_convert.Kernel.Volume.CellConversion import CellConversion
    lines = ['C11 expressions']
    for num, expr in BASE_CELLS.items():
        lines.append(f'{num} 0 {M.render_expr(expr)} imp:n=1')
    for num, (geom, tail, mat) in cards.items():
        card = f'{num} {mat} {geom} {tail}'
        # continuation lines for long cards
        lines.extend(M.wrap_atoms(card.split(' '), width=78)
                     if len(card) > 78 else [card])
    lines.append('')
    for sid in range(1, 13):
        lines.append(f'{sid} px {sid}')
    lines.append('')
    lines.append('m1 13027 1')
    path = os.path.join(workdir.path, 'c11.imcnp')
    with open(path, 'w') as fil:
        fil.write('\n'.join(lines) + '\n')
    parser = mip.MIP(path, encoding='utf-8')
    import io
    import contextlib
    with contextlib.redirect_stdout(io.StringIO()):
        dic, _skipped = ParseMCNPCell(parser, None, {}).parse()
        conv = CellConversion(10**6, 10**6, {}, {}, {}, dic)
        trees = {}
        for num in cards:
            trees[num] = conv.pot_complement(dic[num].geometry)
    os.remove(path)
    return trees


def check_batch(case, ctx, out, items):
    '''items: list of (label, my AST, geometry string, tail, material).'''
    cards = {5000 + k: (geom, tail, mat)
             for k, (_lab, _ast, geom, tail, mat) in enumerate(items)}
    results = {}
    try:
        results = parse_cells(ctx.workdir, cards)
        failures = {}
    except Exception:  # pylint: disable=broad-except
        # isolate the failing cards
        failures = {}
        for num, card in cards.items():
            try:
                results.update(parse_cells(ctx.workdir, {num: card}))
            except Exception as err:  # pylint: disable=broad-except
                import traceback
                tb = traceback.extract_tb(err.__traceback__)
                where = ''
                for frm in tb:
                    if 'MIP' in frm.filename or 't4_geom_convert' in frm.filename:
                        where = os.path.basename(frm.filename) + ':' + frm.name
                failures[num] = (type(err).__name__, str(err)[:200], where)
    for k, (label, ast, geom, tail, _mat) in enumerate(items):
        num = 5000 + k
        out.counters['expressions'] += 1
        if num in failures:
            etype, emsg, where = failures[num]
            mech = None
            if (etype == 'AttributeError' and where.endswith('inverse')
                    and cellc_inside_not(ast)):
                mech = 'cellcompl-inside-exprcompl'
            if etype == 'RecursionError' and (
                    M.expr_size(ast) >= 400 or expr_depth(ast) >= 25):
                mech = 'recursion-depth'
            out.violation('expression-rejected',
                          f'{geom!r}: {etype}: {emsg} @ {where}', mech=mech,
                          policy=label)
            continue
        tree = results[num]
        atoms = sorted(atoms_of(ast, set()), key=repr)
        out.counters['truth_assignments'] += 2 ** len(atoms)
        for bits in itertools.product((False, True), repeat=len(atoms)):
            sense = dict(zip(atoms, bits))
            try:
                got = eval_converted(tree, sense)
            except (ValueError, KeyError, AttributeError) as err:
                out.violation('tree-shape', f'{geom!r}: {err!r} in '
                              f'{tree!r}', policy=label)
                break
            if got != truth(ast, sense):
                out.violation('boolean-function',
                              f'{geom!r} (tail {tail!r}) -> {tree!r}: differs '
                              f'at {sense}', policy=label)
                break
        out.judged += 1


def expr_depth(expr):
    if expr[0] in ('s', '^'):
        return 0
    if expr[0] in ('#', 'g'):
        return 1 + expr_depth(expr[1])
    return 1 + max(expr_depth(sub) for sub in expr[1:])


def cellc_inside_not(expr, inside=False):
    if expr[0] == '^':
        return inside
    if expr[0] == 's':
        return False
    if expr[0] == '#':
        return cellc_inside_not(expr[1], True)
    return any(cellc_inside_not(sub, inside) for sub in expr[1:])


# --------------------------------------------------------------------------
# plan
# --------------------------------------------------------------------------
_CORE_LEAVES = {'quick': 3, 'thorough': 4}
_RANDOM_BATCHES = {'quick': 16, 'thorough': 400}


def plan(tier):
    ncore = core_size(_CORE_LEAVES[tier]) * len(POLICIES)
    nbatch = (ncore + BATCH - 1) // BATCH
    return [('core', nbatch), ('random', _RANDOM_BATCHES[tier]),
            ('e2e', _E2E[tier]), ('depth', 2)]


def depth_items(rng):
    '''Long flat expressions and deeply nested ones over nine surfaces.'''
    def leaf(k):
        sid = 1 + k % 9
        return M.S(sid if (k * 7) % 3 else -sid)
    items = []
    for count in (100, 300, 600, 1000):
        items.append((f'flat-{count}', (rng.choice('*:'),)
                      + tuple(leaf(k) for k in range(count))))
    for depth in (12, 24, 40, 60):
        expr = leaf(0)
        for k in range(1, depth + 1):
            op = ':' if k % 2 else '*'
            expr = (op, leaf(k), expr)
            if k % 3 == 0:
                expr = M.NOT(expr)
        items.append((f'nest-{depth}', expr))
    return items


_E2E = {'quick': 40, 'thorough': 1500}


def e2e_deck(rng):
    '''Random trees with facet literals in a complete deck, some cells moved
    by a TRCL: the Boolean function must survive the whole conversion, not
    only parsing and complement elimination.'''
    import numpy as np
    from ..decks import WORLD_SURF
    from ..gen_surf import motion_of_class, rnd, tr_spec
    from ..mcnp_ref import Motion
    deck = M.Deck('C11 e2e')
    deck.world = 12.0
    macro = {}
    for sid in range(1, 10):
        roll = rng.random()
        if roll < 0.25:
            lo = [rnd(rng, -4, 0) for _ in range(3)]
            par = []
            for val in lo:
                par += [val, val + rnd(rng, 2, 5)]
            deck.surfs.append(M.Surf(sid, 'rpp', par))
            macro[sid] = 6
        elif roll < 0.35:
            deck.surfs.append(M.Surf(sid, 'rcc', [rnd(rng, -2, 2), rnd(rng, -2, 2),
                                                  rnd(rng, -3, 0), 0, 0,
                                                  rnd(rng, 2, 5), rnd(rng, 1, 3)]))
            macro[sid] = 3
        elif roll < 0.6:
            deck.surfs.append(M.Surf(sid, 's', [rnd(rng, -3, 3), rnd(rng, -3, 3),
                                                rnd(rng, -3, 3), rnd(rng, 2, 5)]))
        else:
            deck.surfs.append(M.Surf(sid, rng.choice(['px', 'py', 'pz']),
                                     [rnd(rng, -4, 4)]))
    deck.surfs.append(M.Surf(WORLD_SURF, 'so', [12.0]))

    def fix(expr):
        kind = expr[0]
        if kind == 's':
            _, sid, sign, facet = expr
            if sid in macro:
                facet = None if facet is None or rng.random() < 0.3 else \
                    1 + (facet - 1) % macro[sid]
            else:
                facet = None
            return ('s', sid, sign, facet)
        if kind == '^':
            return expr
        if kind in ('#', 'g'):
            return (kind, fix(expr[1]))
        return (kind,) + tuple(fix(sub) for sub in expr[1:])
    ncell = rng.randint(2, 5)
    for num in range(1, ncell + 1):
        tree = random_tree(rng, rng.randint(1, 3), 8)
        while M.expr_size(tree) > 8 or list(M.expr_cellrefs(tree)):
            tree = random_tree(rng, 2, 8)
        cel = M.Cell(num, mat=1, rho=f'-{num}.5',
                     geom=M.AND(fix(tree), M.S(-WORLD_SURF)), imp={'n': '1'})
        if num > 1 and rng.random() < 0.3:
            cel.geom = M.AND(cel.geom, M.CELLC(rng.randint(1, num - 1)))
        if rng.random() < 0.5:
            cls = rng.choice(['translation', 'generic', 'quarter'])
            mot = Motion([rnd(rng, -2, 2) for _ in range(3)],
                         motion_of_class(rng, cls).b)
            cel.trcl = tr_spec(rng, mot, 'inline3' if cls == 'translation'
                               else rng.choice(['inline12', 'star']))
        deck.cells.append(cel)
    deck.cells.append(M.Cell(900, mat=0, geom=M.S(WORLD_SURF), imp={'n': '0'}))
    deck.mats.append(M.Material(1, [('13027', '1')]))
    deck.hints = [np.zeros(3)]
    return deck


def run_e2e(case, ctx, out):
    from ..judge import convert_deck, crash_violation, region_agreement, \
        summarise
    deck = e2e_deck(case.rng)
    out.structure = 'e2e:' + ';'.join(M.render_expr(c.geom)
                                      for c in deck.cells)
    run_ = convert_deck(case, ctx, out, deck)
    if not run_.ok:
        crash_violation(out, run_)
        return out
    res = region_agreement(case, ctx, out, deck, run_, n_uniform=1500)
    if res is None:
        return out
    _sides, mism, pts, _t4 = res
    out.counters['e2e_decks'] += 1
    out.counters['e2e_probes'] += len(pts)
    out.nontrivial = out.judged >= 200
    out.sample = {'cells': [' '.join(M.cell_atoms(deck, c))
                            for c in deck.cells[:3]]}
    if mism:
        out.violation('boolean-function-e2e', summarise(mism))
    return out


def random_tree(rng, depth, nleaf_cap):
    if depth <= 0 or rng.random() < 0.2:
        roll = rng.random()
        sid = rng.randint(1, 9)
        if roll < 0.12:
            return M.CELLC(rng.choice(list(BASE_CELLS)))
        if roll < 0.3:
            return M.S(sid if rng.random() < 0.5 else -sid,
                       facet=rng.randint(1, 6))
        return M.S(sid if rng.random() < 0.5 else -sid)
    roll = rng.random()
    if roll < 0.15:
        return M.NOT(random_tree(rng, depth - 1, nleaf_cap))
    op = '*' if roll < 0.6 else ':'
    return (op,) + tuple(random_tree(rng, depth - 1, nleaf_cap)
                         for _ in range(rng.randint(2, 3)))


def run(case, ctx):
    from ..core import Outcome
    out = Outcome()
    rng = case.rng
    items = []
    pol_names = list(POLICIES)
    if case.family == 'e2e':
        return run_e2e(case, ctx, out)
    if case.family == 'depth':
        pname = pol_names[case.index % 2]
        for label, ast in depth_items(rng):
            items.append((f'{pname}:{label}', ast,
                          render(ast, POLICIES[pname]), 'imp:n=1', '0'))
        out.structure = f'depth[{case.index}]'
        shim.setup()
        check_batch(case, ctx, out, items)
        out.counters['strings'] += len(items)
        out.nontrivial = True
        return out
    if case.family == 'core':
        maxleaves = _CORE_LEAVES[case.tier]
        start = case.index * BATCH
        stop = start + BATCH
        npol = len(pol_names)
        # item i of the flattened (expression, policy) enumeration
        first_expr = start // npol
        gen = itertools.islice(core_items(maxleaves), first_expr,
                               (stop + npol - 1) // npol + 1)
        pos = first_expr * npol
        for ast in gen:
            for pname in pol_names:
                if start <= pos < stop:
                    geom = render(ast, POLICIES[pname])
                    items.append((pname, ast, geom,
                                  OPTION_TAILS[pos % len(OPTION_TAILS)],
                                  '0' if pos % 3 else '1 -2.7'))
                pos += 1
        out.structure = f'core[{start}:{stop}]'
    else:
        for _ in range(BATCH):
            ast = random_tree(rng, rng.randint(1, 4), 12)
            while M.expr_size(ast) > 12:
                ast = random_tree(rng, 3, 12)
            pname = rng.choice(pol_names)
            items.append((pname, ast, render(ast, POLICIES[pname]),
                          rng.choice(OPTION_TAILS),
                          rng.choice(['0', '1 -2.7', '1 2.5e-2'])))
        out.structure = f'random[{case.index}]:{items[0][2]}'
    if not items:
        out.skipped = 'empty-slice'
        return out
    shim.setup()
    check_batch(case, ctx, out, items)
    import hashlib
    out.structures = [hashlib.sha1(it[2].encode()).hexdigest()[:12]
                      for it in items if M.expr_size(it[1]) >= 2]
    out.counters['strings'] += len(items)
    for it in items:
        out.counters[f'policy.{it[0]}'] += 1
    out.nontrivial = True
    out.sample = {'strings': [it[2] for it in items[:5]],
                  'card_tail': items[0][3]}
    return out


def inconclusive_reasons(tot, tier):
    return []
