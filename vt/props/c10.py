'''C10 - material cards become compositions with the same nuclides and
amounts.'''
import math

from .. import model as M
from .. import matref
from ..decks import WORLD_SURF
from ..judge import convert_deck, crash_violation

ID = 'C10'
UPSTREAM_DECKS = 'all'
UPSTREAM_POINTS = False
LEVEL = 'exploration'
RULE = ('decks with 1-4 generated material cards (Z drawn over 1..118, mass '
        'number 000 / small / three digits, library suffixes .70c/.80c/.31c, '
        'nlib=/plib=/gas= keyword entries in any position, 1-12 entries, '
        'fractions plain or with exponent, all positive or all negative) each '
        'used by cells with a mass density and/or an atom density; the '
        'COMPOSITION block is re-read and compared nuclide by nuclide; mixed '
        'signs must raise; distinct = distinct (cards, densities); '
        'non-trivial = at least one composition with 2 or more nuclides')
ASSUMPTIONS = [
    'nuclide names: element symbol from my own table of 118 symbols + mass '
    'number, -NAT for mass number 000 (the repository\'s T4 naming scheme)',
    'mass density (negative): DENSITY <|rho|> [NB_ATOM iff atom fractions] '
    'with the card\'s absolute values; atom density (positive) with atom '
    'fractions: POINT_WISE concentrations proportional to the fractions and '
    'summing to rho (relative 1e-12); atom density with mass fractions is '
    'outside the statement and not generated',
]
ANCHORS = ['compositionConversionMCNPToT4', 'convert_isotope',
           'rescale_fractions', 'constructCompositionT4',
           'writeT4Composition', 'CCompositionMCNP.__init__',
           'get_material_composition', 'extract_isotopes_fractions']
REQUIRED_REACH = ['CompositionConversionMCNPToT4.py:compositionConversionMCNPToT4',
                  'ConvertIsotope.py:convert_isotope',
                  'ConstructCompositionT4.py:rescale_fractions',
                  'WriteT4Composition.py:writeT4Composition']

FAMILIES = ['atom-massrho', 'mass-massrho', 'atom-atomrho', 'natural',
            'suffixes', 'keywords', 'many-entries', 'exponents', 'heavy-z',
            'two-densities', 'repeated-nuclide', 'same-value-spellings',
            'keywords-blank-forms', 'm0-card', 'mass-atomrho', 'mixed-signs']
_PER = {'quick': 14, 'thorough': 4000}


def attach_monitors():
    from .. import monitors
    monitors.attach_contracts()


def monitor_counts():
    from .. import monitors
    return dict(monitors.COUNTS)


def plan(tier):
    return [(fam, _PER[tier]) for fam in FAMILIES]


def zaid(rng, family):
    znum = rng.randint(1, 118)
    if family == 'heavy-z':
        znum = rng.randint(88, 118)
    if family == 'natural' and rng.random() < 0.7:
        anum = 0
    else:
        anum = rng.choice([0, rng.randint(1, 9), rng.randint(10, 99),
                           rng.randint(100, 299)])
        anum = max(anum, 0)
    text = f'{znum}{anum:03d}'
    if family in ('suffixes', 'keywords') or rng.random() < 0.3:
        text += rng.choice(['.70c', '.80c', '.31c', '.00c', ''])
    return text


def fraction(rng, family, negative):
    val = rng.choice([round(rng.uniform(0.01, 2), 4), rng.randint(1, 5),
                      round(rng.uniform(1e-6, 1e-3), 8)])
    if family == 'exponents' or rng.random() < 0.2:
        text = rng.choice([f'{val:.4e}', f'{val:.3E}', f'{val:e}'])
    else:
        text = repr(val)
        if text.startswith('0.') and rng.random() < 0.3:
            text = text[1:]
    return ('-' if negative else '') + text


def build(case):
    rng = case.rng
    fam = case.family
    deck = M.Deck(f'C10 {fam}')
    deck.world = 12.0
    nmat = rng.randint(1, 3)
    deck.surfs.append(M.Surf(WORLD_SURF, 'so', [12.0]))
    cellno = 0
    deck.expect = {}
    for mid in range(1, nmat + 1):
        mid_num = rng.choice([mid, mid * 10 + 3, 100 + mid])
        negative = fam == 'mass-massrho' or (fam not in ('atom-massrho',
                                                         'atom-atomrho')
                                             and rng.random() < 0.3)
        if fam in ('atom-atomrho',):
            negative = False
        if fam == 'mass-atomrho':
            # weight fractions used with an atom density: the converter warns
            # and writes a composition without nuclides.  Not a C10 family
            # (the property does not say what the amounts are); C08 uses it.
            negative = True
        nent = rng.randint(1, 4)
        if fam == 'many-entries':
            nent = rng.randint(6, 12)
        entries = [(zaid(rng, fam), fraction(rng, fam, negative))
                   for _ in range(nent)]
        if fam == 'repeated-nuclide':
            # the same nuclide listed more than once (different libraries):
            # legal in MCNP, each entry keeps its own fraction
            base = [zaid(rng, fam).split('.')[0] for _ in range(rng.randint(1, 3))]
            names = base + [rng.choice(base) for _ in range(rng.randint(1, 3))]
            rng.shuffle(names)
            entries = [(name + rng.choice(['.70c', '.80c', '.31c', '']),
                        fraction(rng, fam, negative)) for name in names]
        if fam == 'mixed-signs':
            nent = max(nent, 2)
            entries = [(zaid(rng, fam), fraction(rng, fam, k % 2 == 0))
                       for k in range(nent)]
            rng.shuffle(entries)
        keywords = []
        if fam == 'keywords':
            for _ in range(rng.randint(1, 2)):
                keywords.append((rng.randint(0, nent),
                                 rng.choice(['nlib=70c', 'plib=04p', 'gas=1',
                                             'NLIB=80c', 'estep=10'])))
        if fam == 'keywords-blank-forms':
            # the equals sign of a keyword entry is optional and may have
            # blanks around it
            for _ in range(rng.randint(1, 2)):
                keywords.append((rng.randint(0, nent),
                                 rng.choice(['nlib 70c', 'nlib = 70c',
                                             'gas= 1', 'plib =04p',
                                             'NLIB 80c', 'estep = 10',
                                             'refi=1.33',
                                             'refc=1.3199 0.006878 0 0',
                                             'refs 1 2 3 4 5 6'])))
        deck.mats.append(M.Material(mid_num, entries, keywords))
        # densities
        dens = []
        if fam == 'atom-atomrho' or (not negative and rng.random() < (
                0.8 if fam == 'repeated-nuclide' else 0.35)):
            dens.append(rng.choice(['0.0602', '8.5e-2', '1.0', '4.2E-02']))
        if fam == 'mass-atomrho':
            dens.append(rng.choice(['0.1003', '8.5e-2', '1.0']))
            if rng.random() < 0.5:
                dens.append('-2.7')
        elif fam != 'atom-atomrho':
            dens.append('-' + rng.choice(['1.0', '2.7', '10.5', '0.998',
                                          '7.8e0', '19']))
        if fam == 'two-densities':
            dens.append('-' + rng.choice(['3.3', '0.5', '11.35']))
        if fam == 'same-value-spellings':
            # one density value in spellings the converter does not merge:
            # every one of them needs its composition
            num = rng.randint(2, 9)
            forms = [f'-{num}', f'-{num}.0', f'-{num}e0', f'-0.{num}e1',
                     f'-{num}0e-1']
            if not negative and rng.random() < 0.5:
                forms = [f'0.{num}', f'{num}e-1', f'{num}.0e-1', f'0.0{num}e1']
            rng.shuffle(forms)
            dens = forms[:rng.randint(2, 4)]
        for rho in dens:
            cellno += 1
            sid = cellno
            deck.surfs.append(M.Surf(sid, 'so', [cellno * 1.0]))
            geom = M.S(-sid) if cellno == 1 else M.AND(M.S(-sid),
                                                       M.S(sid - 1))
            deck.cells.append(M.Cell(cellno, mat=mid_num, rho=rho, geom=geom,
                                     imp={'n': '1'}))
            deck.expect[(mid_num, rho)] = (entries, negative)
    if fam == 'm0-card':
        # default libraries for all materials: not a material
        deck.extra_data.append(['m0', rng.choice(['nlib=80c', 'nlib=70c',
                                                  'plib=04p'])])
    deck.cells.append(M.Cell(90, mat=0, geom=M.AND(M.S(cellno),
                                                   M.S(-WORLD_SURF)),
                             imp={'n': '1'}))
    deck.cells.append(M.Cell(900, mat=0, geom=M.S(WORLD_SURF), imp={'n': '0'}))
    deck.surfs.sort(key=lambda s: s.id)
    deck.tags.add(f'c10.{fam}')
    if rng.random() < 0.15:
        M.add_unrelated_cards(deck, rng)
    return deck


def run(case, ctx):
    from ..core import Outcome
    out = Outcome()
    deck = build(case)
    out.tags |= deck.tags
    out.structure = ';'.join(' '.join(m.atoms()) for m in deck.mats) + '|' + \
        ';'.join(f'{c.mat}:{c.rho}' for c in deck.cells)
    layout = None
    if case.rng.random() < 0.3 and not deck.extra_data:
        # material cards are often long: written over several lines with
        # either kind of continuation, with comments in between
        from .. import formats
        layout = formats.Recipe(case.rng, only=case.rng.sample(
            ['amp', 'amp', 'cont5', 'ccomment', 'ccomment', 'dollar',
             'blanks', 'tabs', 'indent'], 3))
        out.tags.add('layout.' + '+'.join(sorted(layout.on)))
    run_ = convert_deck(case, ctx, out, deck, layout=layout)
    if case.family == 'mixed-signs':
        out.judged += 1
        out.counters['mixed_sign_cards'] += 1
        if run_.ok:
            out.violation('mixed-signs-accepted', 'a material card mixing '
                          'positive and negative fractions was converted')
        return out
    if not run_.ok:
        crash_violation(out, run_)
        return out
    t4, probs = ctx.parse(run_)
    for rule, msg in probs:
        if rule == 'geomcomp-composition':
            out.violation('composition-missing', msg)
    comps = {}
    for comp in t4.compositions:
        comps.setdefault(comp['name'], []).append(comp)
    multi = False
    for (mid, rho), (entries, negative) in deck.expect.items():
        rho_val = matref.fortran_float(rho)
        found = [c for name, lst in comps.items() for c in lst
                 if matref.parse_comp_name(name) == (mid, rho_val)]
        out.judged += 1
        out.counters['compositions_judged'] += 1
        label = f'material m{mid} density {rho}'
        if not found:
            out.violation('composition-missing', f'{label}: no composition '
                          f'written ({sorted(comps)})')
            continue
        # several spellings of one value may give several compositions: each
        # must be right; judge them all
        for comp in found:
            judge_composition(out, comp, label, entries, negative, rho_val)
            if len(comp['items']) >= 2:
                multi = True
    out.nontrivial = multi
    out.sample = {'material_cards': [' '.join(m.atoms()) for m in deck.mats],
                  'densities': [c.rho for c in deck.cells if c.rho],
                  'written': [f"{c['kind']} {c['name']} {c['density']} "
                              f"{'NB_ATOM ' if c['nb_atom'] else ''}"
                              f"{c['items'][:3]}"
                              for c in t4.compositions[:3]]}
    return out


def upstream_judge(out, deck, sides, t4, name, run_=None):
    '''The repository's example decks: every written composition against the
    material card it is named after.'''
    cards = {m.id: m for m in deck.mats}
    for comp in t4.compositions:
        parsed = matref.parse_comp_name(comp['name'])
        if parsed is None or parsed[0] == 0 or parsed[0] not in cards:
            continue
        mid, rho_val = parsed
        entries = cards[mid].entries
        try:
            signs = {matref.fortran_float(f) < 0 for _z, f in entries}
            [matref.nuclide_name(z) for z, _f in entries]
        except (ValueError, IndexError):
            out.counters['upstream_cards_not_understood'] += 1
            continue
        if len(signs) != 1 or not entries:
            continue
        negative = signs.pop()
        if negative and rho_val > 0:
            continue        # weight fractions at an atom density: not stated
        out.judged += 1
        out.counters['compositions_judged'] += 1
        judge_composition(out, comp, f'{name}: material m{mid} density '
                          f'{rho_val}', entries, negative, rho_val)


def judge_composition(out, comp, label, entries, negative, rho_val):
    if True:
        want_names = [matref.nuclide_name(z) for z, _f in entries]
        got_names = [n for n, _v in comp['items']]
        # weight fractions used at an atom density: the amounts need atomic
        # masses, which this reference does not have; only the list is judged
        unsupported = negative and rho_val > 0
        if got_names != want_names:
            out.violation('nuclides', f'{label}: expected {want_names}, '
                          f'written {got_names}',
                          mech='mass-fractions-at-atom-density-not-converted'
                          if unsupported and not got_names else None)
            return
        if unsupported:
            return
        out.counters['nuclides_judged'] += len(want_names)
        fracs = [abs(matref.fortran_float(f)) for _z, f in entries]
        got = [matref.fortran_float(v) for _n, v in comp['items']]
        if rho_val < 0:
            if comp['kind'] != 'DENSITY':
                out.violation('density-kind', f'{label}: written as '
                              f"{comp['kind']}")
                return
            dens = matref.fortran_float(comp['density'])
            if dens != abs(rho_val):
                out.violation('density-value', f'{label}: DENSITY {dens}')
            if comp['nb_atom'] != (not negative):
                out.violation('nb-atom', f'{label}: NB_ATOM='
                              f"{comp['nb_atom']} but the card's fractions "
                              f"are {'mass' if negative else 'atom'} "
                              'fractions')
            if got != fracs:
                out.violation('fractions', f'{label}: expected {fracs}, '
                              f'written {got}')
        else:
            if comp['kind'] != 'POINT_WISE':
                out.violation('density-kind', f'{label}: written as '
                              f"{comp['kind']}")
                return
            total = math.fsum(got)
            if not math.isclose(total, rho_val, rel_tol=1e-12):
                out.violation('concentration-sum', f'{label}: sum {total!r}')
            fsum = math.fsum(fracs)
            for frac, conc, name in zip(fracs, got, got_names):
                if not math.isclose(conc, rho_val * frac / fsum,
                                    rel_tol=1e-12):
                    out.violation('concentration', f'{label}: {name} has '
                                  f'{conc!r}, expected '
                                  f'{rho_val * frac / fsum!r}')
                    break
