'''C07 - hexagonal lattices follow MCNP's hexagonal index convention.'''
from .. import gen_lat
from . import c06

ID = 'C07'
UPSTREAM_DECKS = True
LEVEL = 'exploration'
RULE = ('LAT=2 decks: hexagon built from three vertex vectors (regular and '
        'irregular centrally symmetric), any in-plane rotation, prism axis '
        'along a coordinate axis or arbitrary, 6 or 8 planes, first and third '
        'listed sides adjacent in either rotational sense, last two side '
        'planes in both orders, axial planes in both orders, index-dependent '
        'FILL arrays / --lattice; distinct and non-trivial as for C06')
ASSUMPTIONS = [
    'MCNP hexagonal indexing: a1 carries the unit cell across the '
    'first-listed plane, a2 across the third-listed, a3 across the seventh; '
    'opposite sides are listed second and fourth',
    'truth vectors come from the construction (sum of the two vertices of '
    'the crossed side)',
    'oblique prisms (end planes parallel to each other but not perpendicular '
    'to the axis): neighbouring elements share whole faces, so a1 and a2 are '
    'parallel to the end planes and a3 is parallel to the axis',
] + c06.ASSUMPTIONS[2:]
ANCHORS = ['hexSortSides', 'areHexSidesAdjacent', 'hexVertices',
           'hexLatticeBaseVectors', 'pointInPlaneIntersection',
           'projectPointOnPlane', 'develop_lattice']
REQUIRED_REACH = ['Lattice.py:hexSortSides', 'Lattice.py:hexVertices',
                  'Lattice.py:hexLatticeBaseVectors',
                  'CellConversion.develop_lattice']
_PER = {'quick': 14, 'thorough': 700}


def attach_monitors():
    from .. import monitors
    monitors.attach_contracts()


def monitor_counts():
    from .. import monitors
    return dict(monitors.COUNTS)


def plan(tier):
    return [(fam, _PER[tier]) for fam in gen_lat.HEX_FAMILIES]


def build(case):
    return gen_lat.build_hex(case.rng, case.family)


def run(case, ctx):
    return c06.lattice_run(case, ctx, build(case), 'hex-lattice-element')
