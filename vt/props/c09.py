'''C09 - each volume gets the material and density of the owning MCNP cell.'''
from .. import model as M
from .. import gen_cells, gen_univ, gen_lat, gen_mix, matref
from ..judge import convert_deck, crash_violation, region_agreement, summarise

ID = 'C09'
UPSTREAM_DECKS = 'all'
LEVEL = 'exploration'
RULE = ('decks of the C01 (flat), C05 (nested) and C06/C07 (lattice, incl. '
        'own-universe elements) generators in which every cell has its own '
        '(material, density) pair, then pairs of cells are made to share a '
        'material with a numerically different density or with the same '
        'density respelled inside the property\'s class (trailing zeros of a '
        'plain decimal; exponent marker e/E/d/D/bare sign); each non-virtual '
        'volume holding judged points is looked up in GEOMCOMP; distinct = '
        'distinct (deck structure, density spellings); non-trivial = at least '
        '3 volumes judged')
ASSUMPTIONS = [
    'composition names have the form m<material>_<density> (m0 for void); '
    'the density part is read as a Fortran number and compared by value, the '
    'exact spelling chosen by the converter is not judged',
    'spelling class: trailing zeros after the decimal point of a plain '
    'decimal, and exponent markers e/E/d/D/bare sign with identical mantissa '
    'and exponent digits',
    'the owning cell is the leaf of the provenance chain located by the '
    'reference model (same oracle R as C05/C06)',
]
ANCHORS = ['constructGeomCompT4', 'writeT4GeomComp', 'constructCompositionT4',
           'parse_material', 'normalize_float', 'pot_fill']
REQUIRED_REACH = ['ConstructGeomCompT4.py:constructGeomCompT4',
                  'ConstructCompositionT4.py:constructCompositionT4',
                  'Utils.py:normalize_float', 'CellConversion.pot_fill']

SOURCES = {
    'flat': (gen_cells.build, ['inter', 'partition', 'nested', 'imp0-middle']),
    'nested': (gen_univ.build, ['depth1', 'depth2', 'depth3', 'reuse-diff-tr',
                                'filler-compl', 'clip']),
    'lat': (gen_lat.build_rect, ['ortho-2d', 'array-own', 'array-zero',
                                 'cli-single', 'skew-2d']),
    'hex': (gen_lat.build_hex, ['regular-6', 'array-own-zero']),
    'mix': (gen_mix.build, ['univ+rect', 'cells+hex', 'three']),
    'like': (None, ['mat-rho', 'rho-only', 'chain', 'everything']),
}
MODES = ['distinct', 'same-value-respelled', 'different-value', 'void-mix',
         'same-value-other-class', 'leading-zero-material']
_PER = {'quick': 3, 'thorough': 150}

ZERO_CLASS = [('{}.0', '{}.00'), ('{}.5', '{}.50'), ('{}.25', '{}.2500'),
              ('{}.0', '{}.000'), ('{}.5', '{}.500')]
EXP_CLASS = [('{}.5e-1', '{}.5E-1'), ('{}.5e-1', '{}.5-1'),
             ('{}.5e-1', '{}.5d-1'), ('{}.5e-1', '{}.5D-1'),
             ('{}.5e+1', '{}.5+1'), ('{}.25e0', '{}.25d0')]


def attach_monitors():
    from .. import monitors
    monitors.attach_contracts()


def monitor_counts():
    from .. import monitors
    return dict(monitors.COUNTS)


def plan(tier):
    out = []
    for src, (_fn, fams) in SOURCES.items():
        for fam in fams:
            for mode in (MODES if src != 'like' else ['asis']):
                out.append((f'{src}:{fam}:{mode}', _PER[tier]))
    return out


class _Sub:
    def __init__(self, case, family):
        self.rng = case.rng
        self.family = family
        self.index = case.index
        self.tier = case.tier
        self.seed = case.seed


def build(case):
    rng = case.rng
    src, fam, mode = case.family.split(':')
    if src == 'like':
        # LIKE n BUT decks keep their own materials and densities (the
        # model cells are the resolved cards)
        from . import c15
        deck = c15.build(_Sub(case, fam))
        deck.tags.add('c09.like')
        return deck
    deck = SOURCES[src][0](rng, fam)
    mats = {m.id for m in deck.mats}
    solid = [c for c in deck.cells if int(c.mat) != 0 and c.id != 900]
    # every cell its own (material, density)
    for k, cel in enumerate(solid):
        if cel.mat not in mats:
            deck.mats.append(M.Material(cel.mat, [('13027', '1')]))
            mats.add(cel.mat)
        cel.rho = f'-{k + 1}.{rng.randint(1, 9)}'
        roll = rng.random()
        if roll < 0.25:
            # very small / large densities: exponents ending in 0
            cel.rho += rng.choice(['e-10', 'e-20', 'E-10', 'e+10', 'e-1',
                                   'e-30', 'e1'])
        elif roll < 0.35:
            cel.rho = f'-{k + 1}.0' + rng.choice(['e-10', 'e-2', 'e+1'])
    if mode == 'void-mix':
        for cel in rng.sample(solid, max(1, len(solid) // 3)):
            cel.mat, cel.rho = 0, None
    elif mode in ('same-value-respelled', 'different-value') and len(solid) >= 2:
        pool = list(solid)
        rng.shuffle(pool)
        nums = list(range(1, 10))
        rng.shuffle(nums)
        # disjoint pairs with distinct values, so that no third spelling of
        # one value outside the class can arise by accident
        for _ in range(max(1, min(len(solid) // 3, len(pool) // 2, 9))):
            a, b = pool.pop(), pool.pop()
            b.mat = a.mat
            num = nums.pop()
            if mode == 'same-value-respelled':
                pa, pb = rng.choice(ZERO_CLASS + EXP_CLASS)
                if rng.random() < 0.5:
                    pa, pb = pb, pa
                a.rho, b.rho = '-' + pa.format(num), '-' + pb.format(num)
                deck.tags.add('rho.respelled')
            else:
                a.rho = f'-{num}.5'
                b.rho = rng.choice([f'-{num}.51', f'-{num}.05', f'-{num + 1}.5',
                                    f'{num}.5e-2'])
                deck.tags.add('rho.different')
    elif mode == 'same-value-other-class' and len(solid) >= 2:
        # equal values in spellings OUTSIDE the property's class (-8, -8.0,
        # -8e0): sharing is not required, but every composition that
        # GEOMCOMP names must be written
        pool = list(solid)
        rng.shuffle(pool)
        num = rng.randint(2, 9)
        forms = [f'-{num}', f'-{num}.0', f'-{num}e0', f'-0.{num}e1',
                 f'-{num}0e-1', f'-{num}.0e+0']
        rng.shuffle(forms)
        first = pool[0]
        for cel, form in zip(pool[:rng.randint(2, 4)], forms):
            cel.mat = first.mat
            cel.rho = form
        deck.tags.add('rho.other-class')
    if mode == 'leading-zero-material':
        # the material number of a cell written 01, 002: the same material
        for cel in rng.sample(solid, max(1, len(solid) // 2)):
            cel.mat = rng.choice(['0', '00']) + str(int(cel.mat))
        deck.tags.add('mat.leading-zero')
    deck.tags.add(f'c09.{mode}')
    return deck


def class_key(rho):
    '''Representative of a density spelling inside the property's class:
    trailing zeros of the fractional part dropped (one digit kept), exponent
    marker unified.  Spellings with different keys may or may not share a
    composition.'''
    import re
    match = re.match(r'^([-+]?)(\d*)(?:\.(\d*))?(?:[eEdD]?([-+]?\d+))?$',
                     rho.strip())
    if not match:
        return rho
    sign, whole, frac, exp = match.groups()
    if frac is not None:
        frac = frac.rstrip('0') or '0'
    key = f"{sign}{whole}" + (f'.{frac}' if frac is not None else '')
    if exp is not None and re.search(r'[eEdD]|\d[-+]\d', rho):
        key += 'e' + exp
    return key


def judge_materials(out, deck, sides, t4):
    '''GEOMCOMP of the written file against the material and density of the
    cell owning each volume's points (sides.ref.leaf, filled in while the
    probes were located).  Returns the number of volumes judged.'''
    assigned = {}
    for name, _n, ids in t4.geomcomp:
        for vid in ids:
            assigned.setdefault(vid, []).append(name)
    comp_names = {c['name'] for c in t4.compositions}
    cells = {c.id: c for c in deck.cells}
    leaf = sides.ref.leaf
    judged_vols = 0
    by_value = {}
    for vid, key in sides.vkeys.items():
        if key not in leaf:
            out.counters['volumes_without_judged_points'] += 1
            continue
        owner = cells[leaf[key]]
        names = assigned.get(vid, [])
        judged_vols += 1
        if len(names) != 1:
            out.violation('material', f'VOLU {vid} assigned to {names}')
            continue
        name = names[0]
        parsed = matref.parse_comp_name(name)
        if int(owner.mat) == 0:
            expected = (0, None)
        else:
            expected = (int(owner.mat), matref.fortran_float(owner.rho))
        if parsed != expected:
            out.violation('material', f'VOLU {vid} (key {key}) is in {name}, '
                          f'owning cell {owner.id} has material {owner.mat} '
                          f'density {owner.rho}')
        if name not in comp_names:
            out.violation('undefined-composition', f'{name} (VOLU {vid}) is '
                          'not defined in COMPOSITION')
        if parsed is not None and int(owner.mat) != 0:
            by_value.setdefault((int(owner.mat), class_key(owner.rho)),
                                set()).add(name)
    for value, names in by_value.items():
        out.counters['density_classes'] += 1
        if len(names) > 1:
            out.violation('split-composition', f'material/density class '
                          f'{value} is spread over compositions '
                          f'{sorted(names)}', mech=None)
    return judged_vols


def upstream_judge(out, deck, sides, t4, name, run_=None):
    '''The repository's example decks: material and density of every volume
    that holds judged points.'''
    if not t4.has_geomcomp:
        return
    njudged = judge_materials(out, deck, sides, t4)
    out.counters['volumes_judged'] += njudged
    out.judged += njudged


def run(case, ctx):
    from ..core import Outcome
    out = Outcome()
    deck = build(case)
    out.tags |= deck.tags
    out.structure = (case.family + '|' + ';'.join(
        f'{c.id}:{c.mat}:{c.rho}' for c in deck.cells))
    run_ = convert_deck(case, ctx, out, deck)
    if not run_.ok:
        crash_violation(out, run_)
        return out
    res = region_agreement(case, ctx, out, deck, run_, n_uniform=1500)
    if res is None:
        return out
    sides, mism, pts, t4 = res
    if mism:
        out.violation('region', summarise(mism))
    judged_vols = judge_materials(out, deck, sides, t4)
    out.counters['volumes_judged'] += judged_vols
    out.judged += judged_vols
    out.nontrivial = judged_vols >= 3
    out.sample = {'cells': [' '.join(M.cell_atoms(deck, c))
                            for c in deck.cells[:4]],
                  'geomcomp': [f'{n} {ids}' for n, _c, ids in t4.geomcomp][:4]}
    return out
