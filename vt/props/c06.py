'''C06 - rectangular lattices: element position, index order and fill array.'''
from .. import model as M
from .. import gen_lat
from ..judge import convert_deck, crash_violation, region_agreement, summarise

ID = 'C06'
UPSTREAM_DECKS = True
LEVEL = 'exploration'
RULE = ('LAT=1 decks generated from chosen a1..a3 (1, 2, 3 dimensions; '
        'orthogonal, skew, arbitrarily rotated unit cells), either plane of '
        'each pair listed first, ranges negative/one-sided, FILL arrays with '
        'distinct universes per element (own-universe and 0 entries, nR '
        'shorthand) or FILL=n with --lattice (incl. degenerate k:k), fill '
        'transformation absent/translation/rotation, lattice cell TRCL, '
        'rotated or moved container, container smaller than the range; '
        'distinct = distinct (surface kinds, cell card, ranges, array, '
        'options); non-trivial = points judged in at least 3 different '
        'provenance chains and at least 500 judged probes')
ASSUMPTIONS = [
    'MCNP lattice indexing: index k increases across the first-listed '
    'surface of the k-th pair; FILL array read with the first index fastest; '
    'a universe filling element (i,j,k) sees the lattice frame translated by '
    'i a1 + j a2 + k a3 and moved by the fill transformation (else the '
    'lattice cell TRCL)',
    'the unit cell is built from the chosen vectors, so the truth does not '
    'depend on inverting the converter\'s geometry',
    'provenance chains compare with converter-internal ids wildcarded: two '
    'elements filled by the same universe are told apart by geometry only',
    'TRIPOLI-4 conventions of vt/t4eval.py; TatSu shim',
]
ANCHORS = ['develop_lattice', 'squareLatticeBaseVectors',
           'squareLatticeReciprocalVecs', 'latticeReciprocal', 'latticeVector',
           'to_fillid', 'LatticeBounds.indices', 'LatticeSpec.items',
           'parse_lattice', 'parse_ranges', 'compose_transform']
REQUIRED_REACH = ['CellConversion.develop_lattice',
                  'Lattice.py:squareLatticeBaseVectors',
                  'ParseMCNPCell.to_fillid', 'main.py:parse_lattice',
                  'Lattice.py:LatticeSpec.items']
FAMS = gen_lat.RECT_FAMILIES
_PER = {'quick': 12, 'thorough': 700}


def attach_monitors():
    from .. import monitors
    monitors.attach_contracts()
    monitors.attach_cache_events()


def monitor_counts():
    from .. import monitors
    return dict(monitors.COUNTS)


def plan(tier):
    return [(fam, _PER[tier]) for fam in FAMS]


def build(case):
    return gen_lat.build_rect(case.rng, case.family)


CPU_LIMIT = 240     # seconds of processor time; such a deck needs a few


def finishes(case, ctx, out, deck):
    '''Convert the deck once in a process of its own whose processor time is
    limited by the kernel (RLIMIT_CPU: a logical budget, it does not depend
    on how loaded the machine is).  A conversion that is still computing
    when the budget is used up counts as one that does not come back.'''
    import os
    import resource
    import subprocess
    import sys
    from .. import core
    inp = os.path.join(ctx.workdir.path, 'budget.imcnp')
    outp = os.path.join(ctx.workdir.path, 'budget.t4')
    with open(inp, 'w', encoding='utf-8') as fil:
        fil.write(M.render(deck))

    def limit():
        resource.setrlimit(resource.RLIMIT_CPU, (CPU_LIMIT, CPU_LIMIT + 5))
    try:
        proc = subprocess.run([sys.executable, '-m', 'vt.oneshot', '-o', outp,
                               inp] + list(deck.cli), cwd=core.VERIF,
                              capture_output=True, text=True,
                              preexec_fn=limit, timeout=7200)
        code = proc.returncode
    except subprocess.TimeoutExpired:
        code = None
    for path in (inp, outp):
        if os.path.exists(path):
            os.remove(path)
    out.counters['cpu_budget_runs'] += 1
    if code is None:
        out.skipped = 'budget-run-starved'
        return False
    if code < 0:
        out.judged += 1
        out.violation('conversion-does-not-finish', 'a lattice of '
                      f'{len(deck.cell(gen_lat.LAT_CELL).fill.array)} elements '
                      'whose FILL array is written with repeats was still '
                      f'being converted after {CPU_LIMIT} s of processor '
                      f'time (signal {-code})')
        out.decks.append(('deck', M.render(deck), list(deck.cli)))
        return False
    return True


def lattice_run(case, ctx, deck, kind):
    from ..core import Outcome
    out = Outcome()
    out.tags |= deck.tags
    out.structure = gen_lat.structure_of(deck)
    if 'lat.long-array' in deck.tags and not finishes(case, ctx, out, deck):
        return out
    run_ = convert_deck(case, ctx, out, deck)
    if not run_.ok:
        crash_violation(out, run_)
        return out
    res = region_agreement(case, ctx, out, deck, run_, n_uniform=2500)
    if res is None:
        return out
    sides, mism, pts, t4 = res
    chains = {k for lab in set(sides.expected(pts[:3500]))
              for k in sides.labels.back[lab] if k[0] == 'c'}
    out.counters['chains_with_points'] += len(chains)
    out.counters['lattice_volumes'] += sum(
        1 for v in t4.volus.values() if not v.fictive and v.chain)
    out.nontrivial = len(chains) >= 3 and out.judged >= 500
    lat = deck.cell(gen_lat.LAT_CELL)
    out.sample = {'lattice_cell': ' '.join(M.cell_atoms(deck, lat)),
                  'cli': deck.cli, 'probes': int(len(pts)),
                  'chains': len(chains)}
    if mism:
        out.violation(kind, summarise(mism))
    return out


def run(case, ctx):
    return lattice_run(case, ctx, build(case), 'lattice-element')
