'''C16 - reflecting and white surfaces become boundary conditions on the
right surfaces.'''
import numpy as np

from .. import model as M
from .. import t4eval
from ..mcnp_ref import Motion
from ..gen_surf import rnd, tr_card, macrobody
from ..judge import convert_deck, crash_violation

ID = 'C16'
LEVEL = 'exploration'
RULE = ('box-like decks (6 bounding planes, inner sphere/cylinder, 2-5 '
        'cells) with * and + flags on planes, spheres and cylinders bounding '
        '1..n cells; a flagged surface with an unflagged duplicate card of '
        'lower / higher number; two flagged duplicates; a flagged surface '
        'with a TR number; a flagged surface used by no cell; a flagged '
        'surface used only by a zero-importance cell; flags on macrobodies '
        '(must raise); each with and without --skip-deduplication; distinct '
        '= distinct (flags, duplicates, options); non-trivial = at least one '
        'flagged surface bounding a converted cell')
ASSUMPTIONS = [
    '* -> REFLECTION, + -> COSINUS (the repository\'s mapping of MCNP '
    'reflecting / white boundaries)',
    'a flagged surface "bounds a converted cell" when it occurs in the '
    'geometry of a cell with non-zero importance (all generated cells are '
    'non-empty)',
    'two flagged cards describing one surface may share one entry; locus '
    'agreement = constant relative sign of the reference function and the '
    'written SURF on 400 random points and on straddling pairs',
]
ANCHORS = ['recuperateBoundaryCondition', 'conversionBoundCond',
           'writeT4BoundCond', 'get_surfaces', 'remove_duplicate_surfaces']
REQUIRED_REACH = ['CConversionBoundaryCondition.recuperateBoundaryCondition',
                  'CConversionBoundaryCondition.conversionBoundCond',
                  'WriteT4BoundCond.py:writeT4BoundCond']
FAMILIES = ['planes', 'sphere', 'cylinder', 'mixed', 'dup-lower-unflagged',
            'dup-higher-unflagged', 'dup-both-flagged', 'with-tr', 'unused',
            'only-imp0', 'macrobody', 'none', 'in-union', 'via-complement',
            'in-union-branch', 'one-sheet-cone', 'one-sheet-cone-twin',
            'unused-flagged-twin', 'trcl-two-mentions', 'trcl-lands-on-twin']
_PER = {'quick': 12, 'thorough': 3500}
KIND = {'*': 'REFLECTION', '+': 'COSINUS'}


def plan(tier):
    return [(fam, _PER[tier]) for fam in FAMILIES]


def build(case):
    rng = case.rng
    fam = case.family
    deck = M.Deck(f'C16 {fam}')
    deck.world = 10.0
    half = [rnd(rng, 3, 5) for _ in range(3)]
    planes = []
    sid = 0
    for ax, kind in enumerate(('px', 'py', 'pz')):
        for sign in (-1, 1):
            sid += 1
            planes.append(M.Surf(sid, kind, [sign * half[ax]]))
    cen = [rnd(rng, -0.5, 0.5), rnd(rng, -0.5, 0.5), rnd(rng, -0.5, 0.5)]
    rad = rnd(rng, 1, 2)
    ikind = rng.choice(['s', 's', 'sq', 'gq', 'sq'])
    if ikind == 's':
        inner = M.Surf(7, 's', cen + [rad])
    elif ikind == 'sq':
        inner = M.Surf(7, 'sq', [1 / rad**2, 1 / (0.8 * rad)**2,
                                 1 / (0.9 * rad)**2, 0, 0, 0, -1] + cen)
    else:
        from ..gen_surf import _gq_from, random_rotation
        rot = random_rotation(rng)
        diag = np.diag([1 / rad**2, 1 / (0.8 * rad)**2, 1 / (0.9 * rad)**2])
        inner = M.Surf(7, 'gq', _gq_from(rot.T @ diag @ rot, np.array(cen),
                                         -1.0))
    deck.tags.add(f'bc.inner.{ikind}')
    cyl = M.Surf(8, 'c/z', [rnd(rng, -0.3, 0.3), rnd(rng, -0.3, 0.3),
                            rnd(rng, 2.2, 2.8)])
    deck.surfs = planes + [inner, cyl]
    box = M.AND(M.S(1), M.S(-2), M.S(3), M.S(-4), M.S(5), M.S(-6))
    cells = [M.Cell(1, mat=1, rho='-1.5', geom=M.S(-7), imp={'n': '1'}),
             M.Cell(2, mat=2, rho='-2.5', geom=M.AND(M.S(7), M.S(-8), M.S(5),
                                                     M.S(-6)),
                    imp={'n': '1'}),
             M.Cell(3, mat=3, rho='-3.5', geom=M.AND(M.S(8), box),
                    imp={'n': '1'}),
             M.Cell(9, mat=0, geom=M.NOT(box), imp={'n': '0'})]
    deck.cells = cells
    for mid in (1, 2, 3):
        deck.mats.append(M.Material(mid, [('13027', '1')]))

    def flag(sur, mark=None):
        sur.flag = mark or rng.choice(['*', '+'])

    if fam in ('planes', 'mixed'):
        for sur in rng.sample(planes, rng.randint(1, 6)):
            flag(sur)
    if fam in ('sphere', 'mixed'):
        flag(inner)
    if fam in ('cylinder', 'mixed'):
        flag(cyl)
    if fam.startswith('dup'):
        tgt = rng.choice(planes + [inner, cyl])
        if fam == 'dup-lower-unflagged':
            # an unflagged copy with a LOWER number used by another cell
            tgt_new = M.Surf(tgt.id + 20, tgt.kind, list(tgt.params))
            flag(tgt_new)
            deck.surfs.append(tgt_new)
            _swap_in(cells[rng.randrange(3)], tgt.id, tgt_new.id) or \
                _swap_in(cells[2], tgt.id, tgt_new.id) or \
                _swap_any(cells, tgt.id, tgt_new.id)
        elif fam == 'dup-higher-unflagged':
            copy = M.Surf(tgt.id + 20, tgt.kind, list(tgt.params))
            flag(tgt)
            deck.surfs.append(copy)
            _swap_any(cells, tgt.id, copy.id, keep_one=True)
        else:
            copy = M.Surf(tgt.id + 20, tgt.kind, list(tgt.params))
            mark = rng.choice(['*', '+'])
            flag(tgt, mark)
            flag(copy, mark)
            deck.surfs.append(copy)
            _swap_any(cells, tgt.id, copy.id, keep_one=True)
    if fam == 'with-tr':
        mot = Motion([rnd(rng, -0.3, 0.3), rnd(rng, -0.3, 0.3), 0.0])
        deck.trs.append(tr_card(rng, 4, mot, rng.choice(['12', '3'])))
        tgt = rng.choice([inner, inner, cyl, planes[0], planes[3]])
        tgt.tr = 4
        flag(tgt)
    if fam == 'unused':
        extra = M.Surf(40, rng.choice(['px', 'so', 'cz']), [rnd(rng, 1, 4)])
        flag(extra)
        deck.surfs.append(extra)
        if rng.random() < 0.5:
            flag(rng.choice(planes))
    if fam == 'only-imp0':
        # a flagged surface that only the outside world (imp=0) uses
        extra = M.Surf(41, 'so', [9.0])
        flag(extra)
        deck.surfs.append(extra)
        cells[3].geom = M.AND(M.NOT(box), M.S(-41))
        deck.cells.append(M.Cell(10, mat=0, geom=M.S(41), imp={'n': '0'}))
        if rng.random() < 0.5:
            flag(inner)
    if fam == 'macrobody':
        kind = rng.choice(['rpp', 'rcc', 'box', 'sph'])
        fam2 = {'rpp': 'any', 'rcc': 'aligned', 'box': 'aligned',
                'sph': 'any'}[kind]
        body = M.Surf(50, kind, macrobody(rng, kind, fam2))
        flag(body)
        deck.surfs.append(body)
        cells[0].geom = M.AND(M.S(-7), M.S(-50))
        deck.tags.add(f'bc.macro.{kind}')
    if fam == 'one-sheet-cone':
        # a flagged one-sheet cone is written as a cone plus an auxiliary
        # plane: the entry must designate the cone
        ax = rng.choice('xyz')
        sheet = rng.choice([1, -1])
        apex = rnd(rng, -0.5, 0.5) - 2.5 * sheet
        kind = rng.choice(['k' + ax, 'k/' + ax])
        t2 = rnd(rng, 0.05, 0.3)
        if '/' in kind:
            cen = [rnd(rng, -0.2, 0.2) for _ in range(3)]
            cen['xyz'.index(ax)] = apex
            cone = M.Surf(12, kind, cen + [t2, sheet])
        else:
            cone = M.Surf(12, kind, [apex, t2, sheet])
        flag(cone)
        deck.surfs.append(cone)
        cells[0].geom = M.AND(M.S(-7), M.S(-12))
        deck.cells.insert(1, M.Cell(5, mat=1, rho='-1.7',
                                    geom=M.AND(M.S(-7), M.S(12)),
                                    imp={'n': '1'}))
        if rng.random() < 0.4:
            flag(rng.choice(planes))
    if fam == 'trcl-two-mentions':
        # one flagged surface mentioned twice in the expression of a cell
        # that is moved by a TRCL (every mention is transformed on its own):
        # still one surface, one entry
        from ..gen_surf import tr_spec
        tgt = rng.choice(planes[:2] + [inner])
        flag(tgt)
        lit = M.S(tgt.id) if tgt is not inner else M.S(-7)
        other = M.S(3) if tgt.id != 3 else M.S(5)
        cells[0].geom = M.OR(M.AND(M.S(-7), lit, other),
                             M.AND(M.S(-7), lit, M.NOT(other)))
        mot = Motion([rnd(rng, -0.3, 0.3), rnd(rng, -0.3, 0.3),
                      rnd(rng, -0.3, 0.3)])
        cells[0].trcl = tr_spec(rng, mot, 'inline3')
        # the other cells no longer tile with the moved one; keep only the
        # moved cell and the outside
        deck.cells = [cells[0], M.Cell(9, mat=0, geom=M.CELLC(1),
                                       imp={'n': '0'})]
    if fam == 'trcl-lands-on-twin':
        # a box and its copy moved by exactly its own width: the moved copy
        # of a flagged face has the locus of the opposite, unflagged face of
        # the original (and the other way round).  A card keeps its own
        # condition, whatever happens to lie on the same points.
        from ..gen_surf import tr_spec
        ax = rng.randrange(3)
        width = rng.choice([3.0, 4.0, 5.0, 6.0])
        lo = rng.choice([-2.0, 0.0, 1.0, -width])
        planes[2 * ax].params = [lo]
        planes[2 * ax + 1].params = [lo + width]
        which = rng.choice(['low', 'high', 'both-kinds'])
        if which in ('low', 'both-kinds'):
            flag(planes[2 * ax], '*' if which == 'both-kinds' else None)
        if which in ('high', 'both-kinds'):
            flag(planes[2 * ax + 1], '+' if which == 'both-kinds' else None)
        if rng.random() < 0.3:
            flag(rng.choice([p for k, p in enumerate(planes)
                             if k // 2 != ax]))
        shift = [0.0, 0.0, 0.0]
        shift[ax] = width * rng.choice([1, -1])
        first = M.Cell(1, mat=1, rho='-1.5', geom=box, imp={'n': '1'})
        second = first.copy()
        second.id = 2
        second.mat, second.rho = 2, '-2.5'
        second.trcl = tr_spec(rng, Motion(shift), 'inline3')
        if rng.random() < 0.5:
            second.like = 1
            second.but = ['trcl', 'mat', 'rho']
        deck.cells = [first, second,
                      M.Cell(9, mat=0, geom=M.AND(M.CELLC(1), M.CELLC(2)),
                             imp={'n': '0'})]
        deck.surfs = list(planes)
    if fam == 'one-sheet-cone-twin':
        # the two sheets of one double cone as two cards, one of them
        # flagged: the other sheet must not inherit the condition
        ax = rng.choice('xyz')
        apex = rnd(rng, -0.3, 0.3)
        t2 = rnd(rng, 0.1, 0.4)
        first = rng.choice([1, -1])
        cone_a = M.Surf(12, 'k' + ax, [apex, t2, first])
        cone_b = M.Surf(13, 'k' + ax, [apex, t2, -first])
        if rng.random() < 0.3:
            cone_b = M.Surf(13, 'k' + ax, [apex, t2])      # both sheets
        flag(cone_a if rng.random() < 0.5 else cone_b)
        deck.surfs += [cone_a, cone_b]
        cells[0].geom = M.AND(M.S(-7), M.S(-12))
        deck.cells.insert(1, M.Cell(5, mat=1, rho='-1.7',
                                    geom=M.AND(M.S(-7), M.S(12), M.S(-13)),
                                    imp={'n': '1'}))
        deck.cells.insert(2, M.Cell(6, mat=2, rho='-2.7',
                                    geom=M.AND(M.S(-7), M.S(12), M.S(13)),
                                    imp={'n': '1'}))
    if fam == 'unused-flagged-twin':
        # a flagged card identical to an unflagged one that bounds the
        # cells; the flagged card itself is not used (or only by the
        # zero-importance outside)
        tgt = rng.choice(planes + [inner, cyl])
        twin = M.Surf(tgt.id + 20 if rng.random() < 0.5 else 0, tgt.kind,
                      list(tgt.params))
        if twin.id == 0:
            # a number below every used one: it would be the survivor
            for sur in deck.surfs:
                sur.id += 1
            def bump(expr):
                if expr[0] == 's':
                    return ('s', expr[1] + 1, expr[2], expr[3])
                if expr[0] == '^':
                    return expr
                if expr[0] in ('#', 'g'):
                    return (expr[0], bump(expr[1]))
                return (expr[0],) + tuple(bump(sub) for sub in expr[1:])
            for cel in cells:
                cel.geom = bump(cel.geom)
            twin.id = 1
        flag(twin)
        deck.surfs.append(twin)
        if rng.random() < 0.4:
            out_cell = cells[3]
            out_cell.geom = M.OR(out_cell.geom, M.AND(M.S(twin.id),
                                                      M.S(-twin.id)))
    if fam in ('in-union', 'via-complement', 'in-union-branch'):
        # flagged surfaces that reach the cells they bound only through
        # FICTIVE helper volumes (operands of UNION / INTE)
        s10 = M.Surf(10, 'px', [rnd(rng, -1.5, -0.5)])
        s11 = M.Surf(11, 'py', [rnd(rng, 0.5, 1.5)])
        flag(s10)
        if rng.random() < 0.7:
            flag(s11)
        deck.surfs += [s10, s11]
        shell = M.AND(M.S(7), M.S(-8), M.S(5), M.S(-6))
        if fam == 'in-union':
            cells[1].geom = M.AND(M.S(7), M.S(-8), M.S(5), M.S(-6),
                                  M.OR(M.S(-10), M.S(-11)))
            extra = M.AND(shell, M.CELLC(2))
        elif fam == 'via-complement':
            cells[1].geom = M.AND(shell, M.OR(M.AND(M.S(-10), M.S(11)),
                                              M.AND(M.S(10), M.S(-11))))
            extra = M.AND(shell, M.CELLC(2))
        else:
            flag(s11)
            cells[1].geom = M.OR(M.AND(shell, M.S(-10), M.S(5)),
                                 M.AND(shell, M.S(10), M.S(-11)))
            extra = M.AND(shell, M.CELLC(2))
        deck.cells.insert(2, M.Cell(4, mat=2, rho='-2.7', geom=extra,
                                    imp={'n': '1'}))
    if rng.random() < 0.4 and fam not in ('trcl-two-mentions',
                                          'trcl-lands-on-twin'):
        # (without de-duplication every transformed mention of a surface
        # stays a SURF of its own, with an entry of its own)
        deck.cli.append('--skip-deduplication')
    deck.surfs.sort(key=lambda s: s.id)
    deck.tags.add(f'c16.{fam}')
    return deck


def _swap_in(cel, old, new):
    changed = []

    def rec(expr):
        if expr[0] == 's':
            if expr[1] == old and not changed:
                changed.append(1)
                return ('s', new, expr[2], expr[3])
            return expr
        if expr[0] == '^':
            return expr
        if expr[0] == '#':
            return ('#', rec(expr[1]))
        return (expr[0],) + tuple(rec(sub) for sub in expr[1:])
    cel.geom = rec(cel.geom)
    return bool(changed)


def _swap_any(cells, old, new, keep_one=False):
    users = [c for c in cells if any(lf[1] == old
                                     for lf in M.expr_leaves(c.geom))]
    if keep_one and len(users) > 1:
        users = users[1:]
    done = False
    for cel in users[:1] if keep_one else users[:1]:
        done = _swap_in(cel, old, new) or done
    return done


def run(case, ctx):
    from ..core import Outcome
    out = Outcome()
    deck = build(case)
    out.tags |= deck.tags
    out.structure = (case.family + '|' + ';'.join(
        f'{s.flag}{s.id}{s.kind}{"T" if s.tr else ""}' for s in deck.surfs)
        + '|' + ';'.join(M.render_expr(c.geom) for c in deck.cells)
        + str(deck.cli))
    run_ = convert_deck(case, ctx, out, deck)
    flagged = [s for s in deck.surfs if s.flag]
    if case.family == 'macrobody' and flagged and \
            any(s.is_macro and s.kind != 'sph' for s in flagged):
        out.judged += 1
        out.counters['macrobody_flags'] += 1
        if run_.ok:
            out.violation('macrobody-flag-accepted', 'a boundary-condition '
                          'flag on a macrobody was converted: '
                          + ' '.join(flagged[0].atoms()))
        return out
    if not run_.ok:
        if case.family == 'macrobody':
            # SPH is a one-surface body; rejecting it is also acceptable
            out.judged += 1
            return out
        crash_violation(out, run_)
        return out
    t4, probs = ctx.parse(run_)
    for rule, msg in probs:
        if rule.startswith('bc-'):
            out.violation(rule, msg)
    reference = M.Reference(deck)
    live_leaves = set()
    for cel in deck.cells:
        if not deck.importance_zero(cel):
            for leaf in M.expr_leaves(cel.geom):
                live_leaves.add(leaf[1])
    # one-surface bodies (SPH, ELL) may be accepted like plain surfaces
    bounding = [s for s in flagged if s.id in live_leaves
                and (not s.is_macro or s.kind in ('sph', 'ell'))]
    out.nontrivial = bool(bounding)
    out.counters['flagged_surfaces'] += len(flagged)
    out.counters['flagged_bounding'] += len(bounding)
    out.counters['bc_entries'] += len(t4.bc)
    nprng = np.random.default_rng(case.rng.getrandbits(60))
    pts = nprng.uniform(-8, 8, (400, 3))

    # a flagged surface bounds the converted cells as it stands, or moved by
    # the TRCL of the cell that mentions it: one "instance" per motion
    instances = []
    for sur in bounding:
        seen = []
        for cel in deck.cells:
            if deck.importance_zero(cel):
                continue
            if sur.id not in {leaf[1] for leaf in M.expr_leaves(cel.geom)}:
                continue
            mot = deck.motion_of(cel.trcl)
            key = None if mot is None else (tuple(mot.o), tuple(mot.b.flat))
            if key not in seen:
                seen.append(key)
                instances.append((sur, mot))

    def locus_values(sur, mot=None):
        loc = pts if mot is None else mot.to_aux(pts)
        if sur.kind in ('kx', 'ky', 'kz') and len(sur.params) == 3 or \
                sur.kind in ('k/x', 'k/y', 'k/z') and len(sur.params) == 5:
            # the surface as a point set is the full (two-sheet) cone
            from .. import mcnp_ref
            smot = reference.surf_motion(sur)
            loc = loc if smot is None else smot.to_aux(loc)
            return mcnp_ref.elementary(sur.kind, sur.params[:-1], loc)
        return reference.leaf_sense(('s', sur.id, 1, None), loc)

    def same_locus(sur, mot, t4surf):
        fref = locus_values(sur, mot)
        fact = t4eval.surf_value(t4surf, pts, t4.transforms)
        ok = (np.abs(fref) > 1e-9) & (np.abs(fact) > 1e-9)
        prod = np.sign(fref[ok]) * np.sign(fact[ok])
        return len(prod) > 0 and (np.all(prod > 0) or np.all(prod < 0))

    ids = [tok for _k, tok in t4.bc]
    if len(set(ids)) != len(ids):
        out.violation('bc-duplicate-entry', f'entries {t4.bc}')
    matched = {k: [] for k in range(len(instances))}
    for kind, tok in t4.bc:
        out.judged += 1
        if not tok.lstrip('-').isdigit() or int(tok) not in t4.surfs:
            continue        # reported by the bc-defined-surf rule above
        t4surf = t4.surfs[int(tok)]
        owners = [k for k, (sur, mot) in enumerate(instances)
                  if KIND[sur.flag] == kind and same_locus(sur, mot, t4surf)]
        if not owners:
            out.violation('bc-on-wrong-surface', f'entry {kind} {tok} '
                          f'({t4surf.raw}) matches no flagged surface '
                          f'bounding a converted cell; flagged: '
                          f'{[" ".join(s.atoms()) for s in flagged]}')
        for k in owners:
            matched[k].append(tok)
    # flagged cards describing the same surface with the same kind may share
    # one entry, or have one each when they stay distinct SURFs
    groups = []
    for k, (sur, mot) in enumerate(instances):
        fref = locus_values(sur, mot)
        for grp in groups:
            gsur, gmot = instances[grp[0]]
            gref = locus_values(gsur, gmot)
            prod = np.sign(fref) * np.sign(gref)
            if gsur.flag == sur.flag and (np.all(prod >= 0)
                                          or np.all(prod <= 0)):
                grp.append(k)
                break
        else:
            groups.append([k])
    for grp in groups:
        out.judged += 1
        entries = set()
        for k in grp:
            entries.update(matched[k])
        names = [' '.join(instances[k][0].atoms()) for k in grp]
        if not entries:
            out.violation('bc-missing', f'flagged surface(s) {names} bound a '
                          f'converted cell but no entry of kind '
                          f'{KIND[instances[grp[0]][0].flag]} designates '
                          f'their locus; entries: {t4.bc}')
        elif len(entries) > len(grp):
            out.violation('bc-duplicate', f'{names} have entries '
                          f'{sorted(entries)}')
    leak_check(case, out, deck, reference, t4, flagged, instances)
    out.sample = {'flagged': [' '.join(s.atoms()) for s in flagged],
                  'options': deck.cli, 'entries': t4.bc}
    return out


def cell_flagged(deck, cel, depth=0):
    '''(flagged surface, motion) for every flagged surface the cell mentions:
    directly (moved by the cell's TRCL), as 1000*c+s (moved by the TRCL of
    cell c), or through the complement #n of another cell.'''
    found = []
    surfs = {s.id: s for s in deck.surfs}
    mot = deck.motion_of(cel.trcl)

    def walk(expr):
        if expr[0] == 's':
            sid = expr[1]
            if sid in surfs:
                if surfs[sid].flag:
                    found.append((surfs[sid], mot))
            elif sid >= 1000 and sid % 1000 in surfs and \
                    surfs[sid % 1000].flag:
                found.append((surfs[sid % 1000],
                              deck.motion_of(deck.cell(sid // 1000).trcl)))
        elif expr[0] == '^':
            if depth < 5:
                found.extend(cell_flagged(deck, deck.cell(expr[1]),
                                          depth + 1))
        elif expr[0] in ('#', 'g'):
            walk(expr[1])
        else:
            for sub in expr[1:]:
                walk(sub)
    walk(cel.geom)
    return found


def leak_check(case, out, deck, reference, t4, flagged, instances=()):
    '''Wherever a surface that carries a boundary condition actually bounds a
    written non-virtual volume, a flagged MCNP surface of that kind must pass
    there (its sense must flip across the boundary): the condition must not
    reach boundaries that belong to unflagged cards only.'''
    nprng = np.random.default_rng(case.rng.getrandbits(60))
    evalr = t4eval.Evaluator(t4)
    live = [vid for vid, vol in t4.volus.items() if not vol.fictive]
    for kind, tok in t4.bc:
        if not tok.lstrip('-').isdigit() or int(tok) not in t4.surfs:
            continue
        t4surf = t4.surfs[int(tok)]

        def fun(pts, _s=t4surf):
            return t4eval.surf_value(_s, pts, t4.transforms)
        lo = np.vstack([nprng.uniform(-7, 7, (800, 3)),
                        nprng.uniform(-2.5, 2.5, (1600, 3))])
        hi = lo + nprng.normal(0, 1.5, lo.shape)
        flo, fhi = fun(lo), fun(hi)
        sel = np.sign(flo) * np.sign(fhi) < 0
        lo, hi, flo = lo[sel], hi[sel], flo[sel]
        if not len(lo):
            continue
        for _ in range(40):
            mid = 0.5 * (lo + hi)
            fmid = fun(mid)
            same = np.sign(fmid) == np.sign(flo)
            lo[same] = mid[same]
            hi[~same] = mid[~same]
        root = 0.5 * (lo + hi)
        step = 1e-4
        grad = np.stack([(fun(root + step * np.eye(3)[k])
                          - fun(root - step * np.eye(3)[k])) / (2 * step)
                         for k in range(3)], axis=1)
        norm = np.linalg.norm(grad, axis=1, keepdims=True)
        ok = norm[:, 0] > 1e-9
        root, grad, norm = root[ok], grad[ok], norm[ok]
        if not len(root):
            continue
        nrm = grad / norm
        plus, minus = root + 3e-3 * nrm, root - 3e-3 * nrm
        # the surface bounds a volume at a point if the membership of the
        # point depends on the sign of THIS surface (another SURF may pass
        # through the same points)
        bplus, bminus = evalr.batch(plus), evalr.batch(plus)
        bplus._surf[t4surf.id] = np.ones(len(root))
        bminus._surf[t4surf.id] = -np.ones(len(root))
        active = np.zeros(len(root), dtype=bool)
        for vid in live:
            active |= bplus.inside(vid) != bminus.inside(vid)
        if not active.any():
            continue
        covered = np.zeros(len(root), dtype=bool)
        todo = [(sur, None) for sur in flagged] + list(instances)
        for sur, mot in todo:
            if KIND[sur.flag] != kind or (sur.is_macro and
                                          sur.kind not in ('sph', 'ell')):
                continue
            leaf = ('s', sur.id, 1, None)
            pls = plus if mot is None else mot.to_aux(plus)
            mns = minus if mot is None else mot.to_aux(minus)
            covered |= np.sign(reference.leaf_sense(leaf, pls)) != \
                np.sign(reference.leaf_sense(leaf, mns))
        # the same question cell by cell: a condition belongs to a surface
        # card, not to a locus - where the entry's surface bounds the volume
        # of a cell, a flagged surface of that kind that THIS cell mentions
        # (moved as the cell is) must pass there.  An unflagged card with
        # the locus of a flagged one must not inherit its condition.
        for vid in live:
            vol = t4.volus[vid]
            if vol.chain or not any(c.id == vid for c in deck.cells):
                continue
            act = bplus.inside(vid) != bminus.inside(vid)
            if not act.any():
                continue
            cov = np.zeros(len(root), dtype=bool)
            for sur, mot in cell_flagged(deck, deck.cell(vid)):
                if KIND[sur.flag] != kind or (sur.is_macro and
                                              sur.kind not in ('sph', 'ell')):
                    continue
                leaf = ('s', sur.id, 1, None)
                pls = plus if mot is None else mot.to_aux(plus)
                mns = minus if mot is None else mot.to_aux(minus)
                cov |= np.sign(reference.leaf_sense(leaf, pls)) != \
                    np.sign(reference.leaf_sense(leaf, mns))
            out.counters['bc_cell_boundary_points'] += int(act.sum())
            badc = act & ~cov
            if badc.sum() >= 3:
                out.violation('bc-leak-cell', f'entry {kind} {tok} '
                              f'({t4surf.raw}) bounds the volume of cell '
                              f'{vid} at {int(badc.sum())} of '
                              f'{int(act.sum())} sampled points, but the '
                              'cell mentions no flagged surface of that kind '
                              'passing there, e.g. '
                              f'{[round(float(v), 4) for v in root[badc][0]]}')
        out.counters['bc_boundary_points'] += int(active.sum())
        out.judged += int(active.sum())
        bad = active & ~covered
        if bad.sum() >= 3:
            out.violation('bc-leak', f'entry {kind} {tok} ({t4surf.raw}): '
                          f'{int(bad.sum())} of {int(active.sum())} sampled '
                          'points where this surface bounds a written volume '
                          'lie on no flagged surface of that kind, e.g. '
                          f'{[round(float(v), 4) for v in root[bad][0]]}')
