'''Composite decks: two or three complete decks of the other generators
(cells, universes, rectangular and hexagonal lattices) are renumbered, each
wrapped into a universe of its own, and placed by a fill transformation into
one container of a common main deck.  Nothing new is modelled: the reference
semantics is the one of nested universes; what is new is that cell
expressions with complements, nested fills, lattices, LIKE cards, macrobody
facets and transformations of every spelling meet in one conversion, with
numbers of one part that coincide with nothing but are close to those of the
others (shared dictionaries, caches, generated numbers, inlining decisions).
'''
import copy

import numpy as np

from . import model as M
from . import gen_cells, gen_univ, gen_lat
from .mcnp_ref import Motion
from .gen_surf import rnd, motion_of_class, tr_card, tr_spec
from .decks import WORLD_SURF

PARTS = {
    'cells': (gen_cells.build, gen_cells.FAMILIES),
    'univ': (gen_univ.build, gen_univ.FAMILIES),
    'rect': (gen_lat.build_rect, gen_lat.RECT_FAMILIES),
    'hex': (gen_lat.build_hex, gen_lat.HEX_FAMILIES),
}
FAMILIES = ['cells+univ', 'univ+univ', 'univ+rect', 'univ+hex', 'rect+hex',
            'rect+rect', 'hex+hex', 'cells+rect', 'cells+hex', 'three',
            'same-part-twice']

CENTRES = [(-14.0, 0.0, 0.0), (14.0, 0.0, 0.0), (0.0, 14.0, 1.0)]


def _map_expr(expr, smap, cmap):
    kind = expr[0]
    if kind == 's':
        _, sid, sign, facet = expr
        if sid in smap:
            return ('s', smap[sid], sign, facet)
        if sid >= 1000 and sid // 1000 in cmap and sid % 1000 in smap:
            # implicit number of a surface of a cell with TRCL
            return ('s', 1000 * cmap[sid // 1000] + smap[sid % 1000], sign,
                    facet)
        raise KeyError(sid)
    if kind == '^':
        return ('^', cmap[expr[1]])
    if kind in ('#', 'g'):
        return (kind, _map_expr(expr[1], smap, cmap))
    return (kind,) + tuple(_map_expr(sub, smap, cmap) for sub in expr[1:])


def _map_spec(spec, tmap):
    if spec is None or spec.number is None:
        return spec
    new = copy.copy(spec)
    new.number = tmap[spec.number]
    return new


class Counters:
    def __init__(self):
        self.cell = 100
        self.surf = 100
        self.uni = 1
        self.tr = 1
        self.mat = 1


def renumber(deck, cnt, rng):
    '''A deep copy of `deck` whose cell, surface, universe, transformation
    and material numbers are dealt afresh from the counters (the order of the
    numbers inside each class is kept, gaps are random).'''
    deck = copy.deepcopy(deck)
    sparse = rng.random() < 0.3

    def deal(ids, attr, gaps):
        if sparse and attr in ('cell', 'surf', 'uni', 'mat'):
            # numbers far apart and up to five digits
            gaps = gaps + [17, 230, 1500]
        out = {}
        cur = getattr(cnt, attr)
        for old in sorted(ids):
            if attr == 'surf' and cur == WORLD_SURF:
                cur += 1
            out[old] = cur
            cur += rng.choice(gaps)
        setattr(cnt, attr, cur + rng.choice(gaps))
        return out
    cmap = deal({c.id for c in deck.cells}, 'cell', [1, 1, 2, 3])
    smap = deal({s.id for s in deck.surfs}, 'surf', [1, 1, 2, 3])
    unis = {c.u for c in deck.cells if c.u}
    for cel in deck.cells:
        if cel.fill is not None:
            if cel.fill.universe:
                unis.add(cel.fill.universe)
            for val in cel.fill.array or []:
                if val:
                    unis.add(val)
    umap = deal(unis, 'uni', [1, 1, 2])
    umap[0] = 0
    tmap = deal({t.id for t in deck.trs}, 'tr', [1, 2])
    mmap = deal({m.id for m in deck.mats}, 'mat', [1, 1, 3])
    mmap[0] = 0
    for sur in deck.surfs:
        sur.id = smap[sur.id]
        if sur.tr is not None:
            sur.tr = tmap[sur.tr]
    for trc in deck.trs:
        trc.id = tmap[trc.id]
    for mat in deck.mats:
        mat.id = mmap[mat.id]
    for cel in deck.cells:
        cel.id = cmap[cel.id]
        cel.mat = mmap[cel.mat]
        if cel.u:
            cel.u = umap[cel.u]
        if cel.like is not None:
            cel.like = cmap[cel.like]
        cel.geom = _map_expr(cel.geom, smap, cmap)
        cel.trcl = _map_spec(cel.trcl, tmap)
        if cel.fill is not None:
            fil = copy.copy(cel.fill)
            if fil.universe:
                fil.universe = umap[fil.universe]
            if fil.array is not None:
                fil.array = [umap[v] for v in fil.array]
                if getattr(fil, 'render_array', None) is not None:
                    fil.render_array = gen_lat._with_shorthand(fil.array)
            fil.tr = _map_spec(fil.tr, tmap)
            cel.fill = fil
    cli = list(deck.cli)
    for k, arg in enumerate(cli[:-1]):
        if arg == '--lattice':
            cid, _, rest = cli[k + 1].partition(',')
            cli[k + 1] = f'{cmap[int(cid)]},{rest}'
    deck.cli = cli
    return deck


def _usable(deck):
    '''Parts whose meaning does not depend on the position of a cell in the
    cell block or on a judging mask.'''
    if deck.imp_cards or getattr(deck, 'unjudged_geometry', False):
        return False
    if getattr(deck, 'extra_data', None):
        return False
    if any(leaf[1] >= 1000 for c in deck.cells
           for leaf in M.expr_leaves(c.geom)):
        # 1000*c+s only works for cell and surface numbers below 1000, which
        # the renumbering of the parts does not promise
        return False
    return all(c.imp is not None for c in deck.cells)


def build(rng, family):
    if family == 'three':
        kinds = [rng.choice(list(PARTS)) for _ in range(3)]
    elif family == 'same-part-twice':
        kinds = [rng.choice(list(PARTS))] * 2
    else:
        kinds = family.split('+')
    main = M.Deck(f'mix {family}')
    main.world = 30.0
    cnt = Counters()
    containers = []
    hints = []
    twin = None
    for k, kind in enumerate(kinds):
        fn, fams = PARTS[kind]
        for _ in range(20):
            if family == 'same-part-twice' and k == 1 and twin is not None:
                part = twin
                break
            part = fn(rng, rng.choice(fams))
            if _usable(part):
                break
        else:
            raise RuntimeError('no usable part')
        if family == 'same-part-twice' and k == 0:
            twin = part
        main.tags |= part.tags
        sub = renumber(part, cnt, rng)
        wrapper = cnt.uni
        cnt.uni += rng.choice([1, 2])
        for cel in sub.cells:
            if not cel.u:
                cel.u = wrapper
        main.cells += sub.cells
        main.surfs += sub.surfs
        main.trs += sub.trs
        main.mats += sub.mats
        main.cli += sub.cli
        # container k: a ball around the centre, filled with the wrapper
        centre = np.array(CENTRES[k]) + [rnd(rng, -0.5, 0.5) for _ in range(3)]
        radius = rnd(rng, 8.0, 11.0)
        cls = rng.choice(['translation', 'translation', 'generic', 'quarter',
                          'flip-z', 'permutation'])
        mot = Motion(centre, motion_of_class(rng, cls).b)
        form = rng.choice(['num', 'inline12', 'star']) if cls != 'translation' \
            else rng.choice(['num', 'inline3', 'inline12'])
        if form == 'num':
            tid = cnt.tr
            cnt.tr += 1
            main.trs.append(tr_card(rng, tid, mot,
                                    rng.choice(['12', '13', 'star'])))
            spec = M.TrSpec(number=tid)
        else:
            spec = tr_spec(rng, mot, form)
        sid = k + 1
        main.surfs.append(M.Surf(sid, 's', [float(v) for v in centre]
                                 + [radius]))
        mid = cnt.mat
        cnt.mat += 1
        main.mats.append(M.Material(mid, [('13027', '1')]))
        main.cells.append(M.Cell(sid, mat=mid, rho=f'-{sid}.5', geom=M.S(-sid),
                                 imp={'n': '1'},
                                 fill=M.Fill(universe=wrapper, tr=spec)))
        containers.append(sid)
        for pnt in list(part.hints)[:300]:
            hints.append(mot.to_main(np.asarray(pnt, dtype=float)))
        ball = np.array([[rng.gauss(0, 1) for _ in range(3)]
                         for _ in range(250)])
        ball = ball / np.linalg.norm(ball, axis=1, keepdims=True)
        ball = ball * (np.array([rng.random() for _ in range(250)]) **
                       (1 / 3) * radius)[:, None]
        hints.extend(list(ball + centre))
    main.surfs.append(M.Surf(WORLD_SURF, 'so', [main.world]))
    mid = cnt.mat
    main.mats.append(M.Material(mid, [('13027', '1')]))
    rest = M.AND(*[M.CELLC(c) for c in containers], M.S(-WORLD_SURF))
    main.cells.append(M.Cell(90, mat=mid, rho='-9.5', geom=rest,
                             imp={'n': '1'}))
    main.cells.append(M.Cell(99, mat=0, geom=M.S(WORLD_SURF), imp={'n': '0'}))
    main.cells.sort(key=lambda c: (c.u is not None and c.u != 0, c.id))
    main.surfs.sort(key=lambda s: s.id)
    if rng.random() < 0.25:
        # the order of the cards inside a block is free in MCNP
        rng.shuffle(main.surfs)
        main.tags.add('cards.unordered')
    if rng.random() < 0.25:
        rng.shuffle(main.cells)
        main.tags.add('cells.unordered')
    if rng.random() < 0.3:
        M.shuffle_options(main, rng)
    if rng.random() < 0.2:
        M.add_unrelated_cards(main, rng)
    main.trs.sort(key=lambda t: t.id)
    main.mats.sort(key=lambda m: m.id)
    main.hints = hints
    main.tags.add(f'mix.{family}')
    main.tags.add('mix.parts:' + '+'.join(sorted(kinds)))
    return main


def structure_of(deck):
    kinds = ','.join(s.kind for s in deck.surfs)
    cells = ';'.join(f'{c.id}:{c.u}:{c.fill.universe if c.fill else None}'
                     for c in deck.cells)
    return f'{kinds}|{cells}'
