'''Deck skeletons shared by the property generators.'''
from . import model as M
from .gen_surf import WORLD

WORLD_SURF = 999


def probe_deck(surfs, leaves, world=WORLD, title='probe deck'):
    '''A deck whose cells are the given leaf expressions clipped by the world
    sphere, one cell per leaf, each with its own material, plus the outside
    world (importance 0).  Cells may overlap: every cell is judged on its
    own.'''
    deck = M.Deck(title)
    deck.world = world
    deck.surfs = list(surfs) + [M.Surf(WORLD_SURF, 'so', [world])]
    for num, leaf in enumerate(leaves, start=1):
        deck.cells.append(M.Cell(num, mat=num, rho=f'-{num}.5',
                                 geom=M.AND(leaf, M.S(-WORLD_SURF)),
                                 imp={'n': '1'}))
        deck.mats.append(M.Material(num, [('13027', '1')]))
    deck.cells.append(M.Cell(900, mat=0, geom=M.S(WORLD_SURF),
                             imp={'n': '0'}))
    return deck
