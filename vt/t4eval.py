'''Point-membership evaluator for a parsed TRIPOLI-4 file (DESIGN §2.3).

Conventions fixed here (the ones under which the upstream decks passed the
upstream MCNP/TRIPOLI-4 oracle, Oracle/src/explainT4.cc):

* a volume holds p iff f(p) > 0 for every PLUS surface and f(p) < 0 for every
  MINUS surface, then ``UNION n ...`` ORs and ``INTE n ...`` ANDs the listed
  volumes;
* PLANE a b c d is a x + b y + c z + d, QUAD is in MCNP GQ order, CONE angles
  are in degrees, TRANSFORM id MATRIX t R means global = R local + t.
'''
import math
import numpy as np

_AX = {'X': 0, 'Y': 1, 'Z': 2}


def surf_value(surf, pts, transforms):
    '''Signed function of the surface at the points (N,3) -> (N,).'''
    typ = surf.type
    par = surf.params
    if surf.tr is not None:
        trv = transforms[surf.tr]
        shift = np.array(trv[:3])
        rot = np.array(trv[3:]).reshape(3, 3)
        pts = (pts - shift) @ rot          # local = R^T (p - t)
    x, y, z = pts[:, 0], pts[:, 1], pts[:, 2]
    if typ in ('PLANEX', 'PLANEY', 'PLANEZ'):
        return pts[:, _AX[typ[-1]]] - par[0]
    if typ == 'PLANE':
        return par[0] * x + par[1] * y + par[2] * z + par[3]
    if typ == 'SPHERE':
        return ((x - par[0])**2 + (y - par[1])**2 + (z - par[2])**2
                - par[3]**2)
    if typ in ('CYLX', 'CYLY', 'CYLZ'):
        axis = _AX[typ[-1]]
        oth = [i for i in range(3) if i != axis]
        return ((pts[:, oth[0]] - par[0])**2 + (pts[:, oth[1]] - par[1])**2
                - par[2]**2)
    if typ == 'CYL':
        cen = np.array(par[:3])
        uvec = np.array(par[4:7])
        uvec = uvec / np.linalg.norm(uvec)
        dif = pts - cen
        along = dif @ uvec
        return (dif * dif).sum(1) - along**2 - par[3]**2
    if typ in ('CONEX', 'CONEY', 'CONEZ', 'CONE'):
        cen = np.array(par[:3])
        tan = math.tan(math.radians(par[3]))
        if typ == 'CONE':
            uvec = np.array(par[4:7])
            uvec = uvec / np.linalg.norm(uvec)
        else:
            uvec = np.eye(3)[_AX[typ[-1]]]
        dif = pts - cen
        along = dif @ uvec
        return (dif * dif).sum(1) - along**2 - (tan * along)**2
    if typ == 'QUAD':
        return (par[0] * x * x + par[1] * y * y + par[2] * z * z
                + par[3] * x * y + par[4] * y * z + par[5] * z * x
                + par[6] * x + par[7] * y + par[8] * z + par[9])
    if typ in ('TORUSX', 'TORUSY', 'TORUSZ'):
        axis = _AX[typ[-1]]
        oth = [i for i in range(3) if i != axis]
        rho = np.sqrt((pts[:, oth[0]] - par[oth[0]])**2
                      + (pts[:, oth[1]] - par[oth[1]])**2)
        return ((pts[:, axis] - par[axis])**2 / par[4]**2
                + (rho - par[3])**2 / par[5]**2 - 1.0)
    raise ValueError(f'unknown surface type {typ}')


class Evaluator:
    '''Membership of points in the volumes of one file, memoised per batch of
    points.'''

    def __init__(self, t4):
        self.t4 = t4

    def batch(self, pts):
        return _Batch(self.t4, np.asarray(pts, dtype=float))


class _Batch:
    def __init__(self, t4, pts):
        self.t4 = t4
        self.pts = pts
        self._surf = {}
        self._vol = {}
        self._busy = set()

    def surf(self, sid):
        val = self._surf.get(sid)
        if val is None:
            val = surf_value(self.t4.surfs[sid], self.pts, self.t4.transforms)
            self._surf[sid] = val
        return val

    def inside(self, vid):
        res = self._vol.get(vid)
        if res is not None:
            return res
        if vid in self._busy:
            raise ValueError(f'VOLU {vid} refers to itself')
        self._busy.add(vid)
        vol = self.t4.volus[vid]
        res = np.ones(len(self.pts), dtype=bool)
        for sid in vol.plus:
            res &= self.surf(sid) > 0
        for sid in vol.minus:
            res &= self.surf(sid) < 0
        if vol.op is not None:
            kind, ids = vol.op
            if kind == 'UNION':
                for other in ids:
                    res = res | self.inside(other)
            else:
                for other in ids:
                    res = res & self.inside(other)
        self._busy.discard(vid)
        self._vol[vid] = res
        return res

    def holders(self):
        '''For every non-fictive volume the boolean membership array.'''
        return {vid: self.inside(vid) for vid in self.t4.volu_order
                if not self.t4.volus[vid].fictive}
