'''Shared judging steps: conversion must succeed, the file must parse, and
the region-agreement oracle R (DESIGN §3).'''
from . import model as M
from . import probes, t4file


def convert_deck(case, ctx, out, deck, name='deck', extra=None, style=None,
                 expand_like=False, layout=None):
    if layout is not None:
        # the same cards in another layout (continuations, comments, blanks)
        from . import formats
        text = formats.render_rewrite(deck, layout, expand_like=expand_like)
    else:
        text = M.render(deck, style=style, expand_like=expand_like)
    argv = list(deck.cli) + list(extra or [])
    run = ctx.convert(text, argv)
    out.decks.append((name, text, argv))
    return run


def crash_violation(out, run, what='conversion raised on a deck inside the '
                    'property\'s domain', mech=None):
    out.violation('crash', f'{what}: {run.brief()}', mech=mech,
                  exc_type=run.exc_type, exc_where=run.exc_where)


def region_agreement(case, ctx, out, deck, run, quirks=(), n_uniform=1200,
                     unjudged=None, hints=None, label='deck'):
    '''Apply oracle R.  Returns (sides, mismatches) or None if the file could
    not be read.'''
    t4, probs = ctx.parse(run)
    out.counters['files_parsed'] += 1
    fatal = [p for p in probs if p[0] in ('layout', 'surf-syntax', 'surf-type',
                                          'surf-arity', 'volu-syntax',
                                          'numeric-field', 'defined-surf',
                                          'defined-volu', 'integer-reference',
                                          'transform-syntax')]
    if fatal:
        out.violation('unreadable-file', f'{label}: {fatal[:3]}',
                      mech='c08:' + fatal[0][0])
        return None
    reference = M.Reference(deck, quirks)
    sides = probes.Sides(reference, t4)
    pts = probes.make_probes(case.rng, sides, deck.world, n_uniform=n_uniform,
                             hints=hints if hints is not None else deck.hints)
    judged, discarded, mism = probes.agree(sides, pts, unjudged=unjudged)
    out.judged += judged
    out.discarded += discarded
    out.counters['probes'] += len(pts)
    return sides, mism, pts, t4


def summarise(mism, limit=3):
    return {'n_points': len(mism), 'first': mism[:limit]}
