'''Reference semantics of MCNP surfaces, macrobodies and transformations,
written from the MCNP manual and independent of the converter's code
(DESIGN §2.2).  Everything is vectorised over arrays of points (N,3).

Sense convention: the returned array is negative where MCNP gives the point
negative sense with respect to the surface and positive where it gives
positive sense.  Only the sign is meaningful.
'''
import math
import numpy as np

AXES = {'x': 0, 'y': 1, 'z': 2}

ELEMENTARY = ('p', 'px', 'py', 'pz', 'so', 's', 'sx', 'sy', 'sz',
              'c/x', 'c/y', 'c/z', 'cx', 'cy', 'cz',
              'k/x', 'k/y', 'k/z', 'kx', 'ky', 'kz', 'sq', 'gq',
              'tx', 'ty', 'tz', 'x', 'y', 'z')
# sense in which the derived apothems s, t of a 9-entry RHP/HEX follow r about
# h (+1: counter-clockwise seen from the tip of h; the manual does not say)
RHP9_SENSE = 1

MACROBODIES = ('box', 'rpp', 'sph', 'rcc', 'rhp', 'hex', 'rec', 'trc', 'ell',
               'wed', 'arb')


# --------------------------------------------------------------------------
# rigid motions
# --------------------------------------------------------------------------
class Motion:
    '''main = O + B^T aux, with B the 3x3 matrix whose rows are the auxiliary
    axes expressed in the main frame (MCNP's B1..B9 read row-wise: B1 B2 B3 =
    cosines of x' with x, y, z).'''

    def __init__(self, origin=(0., 0., 0.), bmat=None):
        self.o = np.asarray(origin, dtype=float)
        self.b = (np.eye(3) if bmat is None
                  else np.asarray(bmat, dtype=float).reshape(3, 3))

    def to_main(self, aux):
        return self.o + np.asarray(aux) @ self.b

    def to_aux(self, main):
        return (np.asarray(main) - self.o) @ self.b.T

    def vec_to_main(self, vec):
        return np.asarray(vec) @ self.b

    def is_identity(self):
        return (not self.o.any()) and np.array_equal(self.b, np.eye(3))

    def then(self, outer):
        '''The motion "self, then outer": aux --self--> mid --outer--> main.'''
        # main = Oo + Bo^T (Os + Bs^T aux)
        return Motion(outer.o + self.o @ outer.b, self.b @ outer.b)


IDENT = Motion()


def _plane3_exact(p1, p2, p3):
    '''The orientation rule in the arithmetic of the card itself: when every
    coordinate is a short decimal number (at most fifteen significant
    digits, as a user types them: repr() of the double gives it back), the cross product and D are computed with rational numbers
    and "zero" means zero - no tolerance is involved.  Returns None for
    coordinates that are not short decimals (computed values printed with
    seventeen digits): their exact value is the rounding noise of whoever
    computed them.'''
    from fractions import Fraction
    pts = []
    for pnt in (p1, p2, p3):
        row = []
        for val in pnt:
            val = float(val)
            text = repr(val)
            mant = text.lower().split('e')[0]
            if len(mant.replace('-', '').replace('.', '').strip('0')) > 15:
                # a computed value: what was typed is not recoverable
                return None
            row.append(Fraction(text))
        pts.append(row)
    d12 = [b - a for a, b in zip(pts[0], pts[1])]
    d13 = [b - a for a, b in zip(pts[0], pts[2])]
    nrm = [d12[1] * d13[2] - d12[2] * d13[1],
           d12[2] * d13[0] - d12[0] * d13[2],
           d12[0] * d13[1] - d12[1] * d13[0]]
    if not any(nrm):
        return None
    dval = sum(n * c for n, c in zip(nrm, pts[0]))
    if dval != 0:
        flip = dval < 0
    elif nrm[2] != 0:
        flip = nrm[2] < 0
    elif nrm[1] != 0:
        flip = nrm[1] < 0
    else:
        flip = nrm[0] < 0
    length = math.sqrt(float(sum(n * n for n in nrm)))
    sign = -1.0 if flip else 1.0
    return (sign * float(nrm[0]) / length, sign * float(nrm[1]) / length,
            sign * float(nrm[2]) / length, sign * float(dval) / length)


def plane3_params(pts):
    '''MCNP orientation rule for a plane through three points: returns (A,B,C,D)
    of Ax+By+Cz-D=0 such that the origin has negative sense; if the plane
    passes through the origin (D=0) the point (0,0,inf) has positive sense; if
    also C=0 then (0,inf,0); if also B=0 then (inf,0,0).'''
    p1, p2, p3 = (np.asarray(p, dtype=float) for p in pts)
    exact = _plane3_exact(p1, p2, p3)
    if exact is not None:
        return exact
    # Numbers of more than fifteen digits are the result of a computation:
    # they carry an uncertainty of their own, a few units in the last place
    # each.  D, C, B, A are evaluated exactly on the doubles and "zero" means
    # "within the first-order effect of four such units on every coordinate"
    # (the generators keep what they decide either below half a unit or
    # above sixty).
    from fractions import Fraction
    crd = [Fraction(float(v)) for pnt in (p1, p2, p3) for v in pnt]

    def normal(c):
        d12 = [c[3 + k] - c[k] for k in range(3)]
        d13 = [c[6 + k] - c[k] for k in range(3)]
        return [d12[1] * d13[2] - d12[2] * d13[1],
                d12[2] * d13[0] - d12[0] * d13[2],
                d12[0] * d13[1] - d12[1] * d13[0]]
    funcs = [lambda c: sum(n * x for n, x in zip(normal(c), c[:3])),
             lambda c: normal(c)[2], lambda c: normal(c)[1],
             lambda c: normal(c)[0]]
    flip = False
    for func in funcs:
        val = func(crd)
        band = 0
        for k, x in enumerate(crd):
            if x:
                moved = list(crd)
                moved[k] = x + 1
                band += abs(x) * abs(func(moved) - val)
        if abs(val) > band * Fraction(4, 2**52):
            flip = val < 0
            break
    exact_n = normal(crd)
    length = math.sqrt(float(sum(n * n for n in exact_n)))
    nrm = np.array([float(n) / length for n in exact_n])
    dval = float(funcs[0](crd)) / length
    if flip:
        nrm, dval = -nrm, -dval
    return nrm[0], nrm[1], nrm[2], dval


def _cone(pts, apex, axis, t2, sheet):
    '''r^2 - t^2 h^2 with optional one-sheet selection (sheet = +1 / -1 keeps
    the nappe on the +axis / -axis side of the apex: inside that nappe is
    negative, everything else positive).'''
    dif = pts - np.asarray(apex, dtype=float)
    hgt = dif[:, axis]
    rad2 = (dif * dif).sum(1) - hgt * hgt
    fun = rad2 - t2 * hgt * hgt
    if not sheet:
        return fun
    keep = hgt * sheet > 0
    return np.where(keep, fun, np.abs(fun) + 1.0)


def elementary(kind, par, pts, quirks=()):
    '''Sense function of an elementary surface card.'''
    kind = kind.lower()
    par = [float(v) for v in par]
    x, y, z = pts[:, 0], pts[:, 1], pts[:, 2]
    if kind == 'p':
        if len(par) == 9:
            a, b, c, d = plane3_params((par[0:3], par[3:6], par[6:9]))
        else:
            a, b, c, d = par
        return a * x + b * y + c * z - d
    if kind in ('px', 'py', 'pz'):
        return pts[:, AXES[kind[1]]] - par[0]
    if kind == 'so':
        return x * x + y * y + z * z - par[0]**2
    if kind == 's':
        return (x - par[0])**2 + (y - par[1])**2 + (z - par[2])**2 - par[3]**2
    if kind in ('sx', 'sy', 'sz'):
        cen = [0., 0., 0.]
        cen[AXES[kind[1]]] = par[0]
        return ((x - cen[0])**2 + (y - cen[1])**2 + (z - cen[2])**2
                - par[1]**2)
    if kind in ('cx', 'cy', 'cz'):
        ax = AXES[kind[1]]
        oth = [i for i in range(3) if i != ax]
        return pts[:, oth[0]]**2 + pts[:, oth[1]]**2 - par[0]**2
    if kind in ('c/x', 'c/y', 'c/z'):
        ax = AXES[kind[2]]
        oth = [i for i in range(3) if i != ax]
        return ((pts[:, oth[0]] - par[0])**2 + (pts[:, oth[1]] - par[1])**2
                - par[2]**2)
    if kind in ('kx', 'ky', 'kz'):
        ax = AXES[kind[1]]
        apex = [0., 0., 0.]
        apex[ax] = par[0]
        sheet = par[2] if len(par) > 2 else 0
        return _cone(pts, apex, ax, par[1], sheet)
    if kind in ('k/x', 'k/y', 'k/z'):
        ax = AXES[kind[2]]
        sheet = par[4] if len(par) > 4 else 0
        return _cone(pts, par[0:3], ax, par[3], sheet)
    if kind == 'sq':
        a, b, c, d, e, f, g, x0, y0, z0 = par
        val = (a * (x - x0)**2 + b * (y - y0)**2 + c * (z - z0)**2
               + 2 * d * (x - x0) + 2 * e * (y - y0) + 2 * f * (z - z0) + g)
        if 'sq_neg_poscentre' in quirks and g > 0:
            val = -val
        return val
    if kind == 'gq':
        return (par[0] * x * x + par[1] * y * y + par[2] * z * z
                + par[3] * x * y + par[4] * y * z + par[5] * z * x
                + par[6] * x + par[7] * y + par[8] * z + par[9])
    if kind in ('tx', 'ty', 'tz'):
        ax = AXES[kind[1]]
        oth = [i for i in range(3) if i != ax]
        rho = np.sqrt((pts[:, oth[0]] - par[oth[0]])**2
                      + (pts[:, oth[1]] - par[oth[1]])**2)
        amaj = par[3]
        bax = par[4]
        crad = par[5] if len(par) > 5 else par[4]
        return (pts[:, ax] - par[ax])**2 / bax**2 + (rho - amaj)**2 / crad**2 - 1.
    if kind in ('x', 'y', 'z'):
        return _axisym(kind, par, pts)
    raise ValueError(f'no reference for surface kind {kind!r}')


def _axisym(kind, par, pts):
    '''Point-defined surfaces symmetric about a coordinate axis.'''
    ax = AXES[kind]
    oth = [i for i in range(3) if i != ax]
    hgt = pts[:, ax]
    rad2 = pts[:, oth[0]]**2 + pts[:, oth[1]]**2
    if len(par) == 2:
        return hgt - par[0]
    if len(par) != 4:
        raise ValueError('only one or two coordinate pairs are modelled')
    h1, r1, h2, r2 = par
    if h1 == h2:
        return hgt - h1                       # plane
    if r1 == r2:
        return rad2 - r1 * r1                 # cylinder
    # one-sheet cone through the two points
    slope = (r2 - r1) / (h2 - h1)
    apex = h1 - r1 / slope
    # the sheet is the side of the apex where the points (r > 0) lie
    ref_h = h1 if r1 > 0 else h2
    sheet = 1.0 if ref_h > apex else -1.0
    fun = rad2 - slope * slope * (hgt - apex)**2
    keep = (hgt - apex) * sheet > 0
    return np.where(keep, fun, np.abs(fun) + 1.0)


# --------------------------------------------------------------------------
# macrobodies: per-facet outward-positive functions, in MCNP facet order
# --------------------------------------------------------------------------
def _unit(vec):
    vec = np.asarray(vec, dtype=float)
    return vec / np.linalg.norm(vec)


def _slab(pts, base, vec):
    '''Facets "end of vec" and "beginning of vec": two outward-positive
    functions for the slab 0 < (p-base).u < |vec|.'''
    uvec = _unit(vec)
    hgt = (pts - np.asarray(base, dtype=float)) @ uvec
    return hgt - np.linalg.norm(vec), -hgt


def facets(kind, par, pts, quirks=()):
    '''List of outward-positive facet functions of a macrobody, in MCNP facet
    numbering.  The body is the set where all of them are negative.'''
    kind = kind.lower()
    par = [float(v) for v in par]
    pts = np.asarray(pts, dtype=float)
    if kind == 'box':
        base = par[0:3]
        out = []
        for k in range(3):
            out.extend(_slab(pts, base, par[3 + 3 * k:6 + 3 * k]))
        return out
    if kind == 'rpp':
        x, y, z = pts[:, 0], pts[:, 1], pts[:, 2]
        return [x - par[1], par[0] - x, y - par[3], par[2] - y,
                z - par[5], par[4] - z]
    if kind == 'sph':
        dif = pts - np.asarray(par[0:3])
        return [(dif * dif).sum(1) - par[3]**2]
    if kind == 'rcc':
        base, hvec, rad = par[0:3], par[3:6], par[6]
        uvec = _unit(hvec)
        dif = pts - np.asarray(base)
        hgt = dif @ uvec
        side = (dif * dif).sum(1) - hgt * hgt - rad * rad
        top, bot = _slab(pts, base, hvec)
        return [side, top, bot]
    if kind in ('rhp', 'hex'):
        base, hvec, rvec = par[0:3], par[3:6], par[6:9]
        if len(par) == 15:
            svec, tvec = par[9:12], par[12:15]
        else:
            # regular hexagon: the other two apothem vectors are r rotated by
            # 60 and 120 degrees about h (numbering of facets 3-6 is a
            # convention the manual does not fix: see 'unjudged' in probes)
            # RHP9_SENSE selects the sense of rotation; C03 accepts a body
            # whose facets 3-6 agree with one of the two senses throughout
            svec = _rotate(rvec, _unit(hvec), RHP9_SENSE * math.pi / 3)
            tvec = _rotate(rvec, _unit(hvec), RHP9_SENSE * 2 * math.pi / 3)
        out = []
        dif = pts - np.asarray(base)
        for vec in (rvec, svec, tvec):
            uvec = _unit(vec)
            dist = dif @ uvec
            length = np.linalg.norm(vec)
            out.extend([dist - length, -dist - length])
        out.extend(_slab(pts, base, hvec))
        return out
    if kind == 'rec':
        base, hvec, amaj = par[0:3], par[3:6], par[6:9]
        uh = _unit(hvec)
        ua = _unit(amaj)
        la = np.linalg.norm(amaj)
        if len(par) == 12:
            bmin = par[9:12]
            ub = _unit(bmin)
            lb = np.linalg.norm(bmin)
        else:
            ub = _unit(np.cross(uh, ua))
            lb = abs(par[9])
        dif = pts - np.asarray(base)
        side = (dif @ ua)**2 / la**2 + (dif @ ub)**2 / lb**2 - 1.0
        top, bot = _slab(pts, base, hvec)
        return [side, top, bot]
    if kind == 'trc':
        base, hvec, r0, r1 = par[0:3], par[3:6], par[6], par[7]
        uh = _unit(hvec)
        lh = np.linalg.norm(hvec)
        dif = pts - np.asarray(base)
        hgt = dif @ uh
        rad = np.sqrt(np.maximum((dif * dif).sum(1) - hgt * hgt, 0.0))
        # radius of the cone at height hgt (linear); the facet is the cone
        # surface; beyond the apex its sense is not modelled (mask 'apex')
        rcone = r0 + (r1 - r0) * hgt / lh
        side = rad - rcone
        top, bot = _slab(pts, base, hvec)
        return [side, top, bot]
    if kind == 'ell':
        v1, v2, rm = np.array(par[0:3]), np.array(par[3:6]), par[6]
        if rm > 0:
            # DECLARED ASSUMPTION (DESIGN §2.2): for the two-foci form the
            # manual and MCNP disagree according to the repository's own
            # MCNP-validated comment; the repository's reading is used.
            cen = 0.5 * (v1 + v2)
            half = np.linalg.norm(v1 - cen)
            ua = _unit(v1 - cen) if half > 0 else np.array([1., 0., 0.])
            amaj2 = rm * rm
            bmin2 = rm * rm - (rm - half)**2
        else:
            cen = v1
            ua = _unit(v2)
            amaj2 = float(v2 @ v2)
            bmin2 = rm * rm
        dif = pts - cen
        along = dif @ ua
        perp2 = (dif * dif).sum(1) - along * along
        return [along * along / amaj2 + perp2 / bmin2 - 1.0]
    if kind == 'wed':
        base = np.array(par[0:3])
        avec, bvec, hvec = (np.array(par[3:6]), np.array(par[6:9]),
                            np.array(par[9:12]))
        dif = pts - base
        ua, ub = _unit(avec), _unit(bvec)
        la, lb = np.linalg.norm(avec), np.linalg.norm(bvec)
        sa = dif @ ua / la
        sb = dif @ ub / lb
        slant = sa + sb - 1.0            # hypotenuse plane, outside positive
        top, bot = _slab(pts, base, hvec)
        return [slant, -sa, -sb, top, bot]
    if kind == 'arb':
        verts = [np.array(par[3 * i:3 * i + 3]) for i in range(8)]
        descr = [int(round(v)) for v in par[24:30]]
        used = set()
        faces = []
        for num in descr:
            idx = [int(ch) - 1 for ch in str(abs(num)) if ch != '0']
            if idx:
                faces.append(idx)
                used.update(idx)
        centroid = sum(verts[i] for i in sorted(used)) / len(used)
        out = []
        for idx in faces:
            p1, p2, p3 = (verts[i] for i in idx[:3])
            nrm = _unit(np.cross(p2 - p1, p3 - p1))
            if (centroid - p1) @ nrm > 0:
                nrm = -nrm
            out.append((pts - p1) @ nrm)
        return out
    raise ValueError(f'no reference for macrobody {kind!r}')


def n_facets(kind, par):
    kind = kind.lower()
    if kind == 'arb':
        return sum(1 for v in par[24:30] if int(round(v)) != 0)
    return {'box': 6, 'rpp': 6, 'sph': 1, 'rcc': 3, 'rhp': 8, 'hex': 8,
            'rec': 3, 'trc': 3, 'ell': 1, 'wed': 5}[kind]


def body_sense(kind, par, pts, quirks=()):
    '''Negative inside the solid, positive outside (max of the facets).'''
    fac = facets(kind, par, pts, quirks)
    if kind.lower() == 'trc':
        # inside = within the slab and within the cone radius
        return np.maximum.reduce(fac)
    return np.maximum.reduce(fac)


def _rotate(vec, axis, angle):
    vec = np.asarray(vec, dtype=float)
    axis = np.asarray(axis, dtype=float)
    return (vec * math.cos(angle) + np.cross(axis, vec) * math.sin(angle)
            + axis * (axis @ vec) * (1 - math.cos(angle)))


def trc_beyond_apex(par, pts):
    '''Mask of the points on the far side of the apex of a TRC's cone (where
    the sense of facet 1 is not modelled).'''
    par = [float(v) for v in par]
    base, hvec, r0, r1 = np.array(par[0:3]), np.array(par[3:6]), par[6], par[7]
    if r0 == r1:
        return np.zeros(len(pts), dtype=bool)
    uh = _unit(hvec)
    lh = np.linalg.norm(hvec)
    hgt = (pts - base) @ uh
    apex_h = lh * r0 / (r0 - r1)
    if r0 > r1:
        return hgt >= apex_h
    return hgt <= apex_h


# --------------------------------------------------------------------------
# rotation matrices from TR-card entries
# --------------------------------------------------------------------------
def complete_rotation(entries):
    '''Complete a list of 9 entries (None = omitted) to a proper rotation per
    the MCNP manual, where the completion is unique: all nine; two rows or two
    columns (third by cross product); one row and one column sharing an
    element (Euler construction is the converter's; here the unique proper
    rotation containing them is found numerically).  Returns None when the
    completion is not unique (one vector only) or the pattern is not one of
    the manual's.'''
    ent = list(entries) + [None] * (9 - len(entries))
    mat = np.array([[np.nan if v is None else float(v) for v in ent[3 * i:3 * i + 3]]
                    for i in range(3)])
    known = ~np.isnan(mat)
    nkn = int(known.sum())
    if nkn == 9:
        return mat
    if nkn == 0:
        return np.eye(3)
    if nkn == 6:
        full_rows = [i for i in range(3) if known[i].all()]
        full_cols = [j for j in range(3) if known[:, j].all()]
        if len(full_rows) == 2:
            miss = ({0, 1, 2} - set(full_rows)).pop()
            a, b = mat[(miss + 1) % 3], mat[(miss + 2) % 3]
            mat[miss] = np.cross(a, b)
            return mat
        if len(full_cols) == 2:
            miss = ({0, 1, 2} - set(full_cols)).pop()
            a, b = mat[:, (miss + 1) % 3], mat[:, (miss + 2) % 3]
            mat[:, miss] = np.cross(a, b)
            return mat
        return None
    return None
