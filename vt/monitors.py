'''Monitors attached from the harness to the real functions of the repository
(DESIGN §2.5).  Each monitor counts its evaluations in COUNTS and appends
violations to EVENTS; the property's run() drains EVENTS after each case.
Nothing here edits /repo: attributes are replaced in the imported modules
(and in every module that imported the function by name).'''
import collections
import functools
import math
import sys

import numpy as np

COUNTS = collections.Counter()
EVENTS = []          # dicts: monitor, detail
_ATTACHED = set()
UNAVAILABLE = {}     # monitor name -> why it could not be attached


def _unavailable(name, err):
    '''A monitor that cannot be attached to this tree (function renamed,
    moved, other parameter names) is reported and left out: it must never
    turn a refactoring into an alarm.  The end-to-end oracles still decide.'''
    UNAVAILABLE[name] = repr(err)
    COUNTS[f'unavailable.{name}'] += 1


def _safe(name, cond):
    '''A contract condition whose own failure (not a violation it records)
    never reaches the monitored code.'''
    @functools.wraps(cond)
    def inner(*args, **kwargs):
        try:
            return cond(*args, **kwargs)
        except Exception:  # pylint: disable=broad-except
            COUNTS[f'monitor-error.{name}'] += 1
            return True
    return inner


def _attach_contract(name, module_path, attr, post):
    '''icontract postcondition `post` on module_path.attr, rebinding every
    by-name import of the function.'''
    import importlib
    import inspect
    import icontract
    try:
        module = importlib.import_module(module_path)
        func = getattr(module, attr)
        params = set(inspect.signature(func).parameters)
        need = set(inspect.signature(post).parameters) - {'result'}
        if not need <= params:
            raise TypeError(f'{attr} has parameters {sorted(params)}, the '
                            f'contract needs {sorted(need)}')
        wrapped = icontract.ensure(_safe(name, post),
                                   error=AssertionError)(func)
        COUNTS[f'bind.{name}'] += _replace_everywhere(func, wrapped)
    except Exception as err:  # pylint: disable=broad-except
        _unavailable(name, err)


def drain():
    out = list(EVENTS)
    EVENTS.clear()
    return out


def _replace_everywhere(original, wrapper):
    '''Replace every module-level binding of `original` (found by identity)
    by `wrapper`; returns the number of bindings replaced.'''
    count = 0
    for mod in list(sys.modules.values()):
        if mod is None or not getattr(mod, '__name__', '').startswith(
                ('t4_geom_convert', 'MIP')):
            continue
        for name, val in list(vars(mod).items()):
            if val is original:
                setattr(mod, name, wrapper)
                count += 1
    return count


# --------------------------------------------------------------------------
# de-duplication merges only identical surfaces (C13, C16)
# --------------------------------------------------------------------------
def _surf_to_eval(surf):
    from . import t4file
    text = 'GEOMETRY\n'
    block = surf.transform_block()
    kw = ''
    if block is not None:
        text += f'TRANSFORM 1 MATRIX {block}\n'
        kw = 'TRANSFORM 1 '
    text += f'SURF 1 {kw}{surf}\nENDG\n'
    t4 = t4file.parse(text)
    return t4


def attach_dedup():
    if 'dedup' in _ATTACHED:
        return
    _ATTACHED.add('dedup')
    from . import t4eval
    try:
        from t4_geom_convert.Kernel.Surface import Duplicates
        original = Duplicates.remove_duplicate_surfaces
    except Exception as err:  # pylint: disable=broad-except
        _unavailable('dedup', err)
        return
    rng = np.random.default_rng(12345)

    @functools.wraps(original)
    def wrapper(*args, **kwargs):
        try:
            before = dict(args[0].items())
        except Exception:  # pylint: disable=broad-except
            before = None
        result = original(*args, **kwargs)
        if before is None:
            COUNTS['monitor-error.dedup'] += 1
            return result
        try:
            new_surfs, renumbering = result
            judge_dedup(before, renumbering)
        except Exception:  # pylint: disable=broad-except
            COUNTS['monitor-error.dedup'] += 1
        return result

    def judge_dedup(before, renumbering):
        COUNTS['dedup.calls'] += 1
        for key, target in renumbering.items():
            if key == target:
                continue
            COUNTS['dedup.merged_pairs'] += 1
            try:
                ta = _surf_to_eval(before[key])
                tb = _surf_to_eval(before[target])
                pts = rng.uniform(-12, 12, (96, 3))
                va = t4eval.surf_value(ta.surfs[1], pts, ta.transforms)
                vb = t4eval.surf_value(tb.surfs[1], pts, tb.transforms)
                scale = np.maximum(1.0, np.abs(va))
                if not np.all(np.abs(va - vb) <= 1e-9 * scale):
                    EVENTS.append({'monitor': 'dedup', 'detail':
                                   f'surface {key} ({before[key]}) merged '
                                   f'into {target} ({before[target]}) but '
                                   'they evaluate differently'})
            except Exception:  # pylint: disable=broad-except
                COUNTS['monitor-error.dedup'] += 1
        # renumbering must be total and idempotent
        for key in before:
            if key not in renumbering:
                EVENTS.append({'monitor': 'dedup', 'detail':
                               f'surface {key} has no image'})
            elif renumbering[renumbering[key]] != renumbering[key]:
                EVENTS.append({'monitor': 'dedup', 'detail':
                               f'renumbering of {key} is not idempotent'})
    COUNTS['dedup.bindings'] += _replace_everywhere(original, wrapper)


# --------------------------------------------------------------------------
# icontract contracts on the real helper functions.  Conditions record and
# return True (DESIGN §2.5), so one run collects every violation.
# --------------------------------------------------------------------------
def _record(monitor, detail):
    if len(EVENTS) < 200:
        EVENTS.append({'monitor': monitor, 'detail': detail})


def _is_rotation(mat9, tol=1e-9):
    mat = np.array(mat9, dtype=float).reshape(3, 3)
    return (np.allclose(mat @ mat.T, np.eye(3), atol=tol)
            and abs(np.linalg.det(mat) - 1.0) < tol)


def attach_contracts():
    '''Attach every contract; safe to call more than once.'''
    if 'contracts' in _ATTACHED:
        return
    _ATTACHED.add('contracts')
    from . import matref, model

    # -- normalize_transform: 12 numbers, proper rotation, entries kept ----
    def nt_post(transf, result):
        COUNTS['contract.normalize_transform'] += 1
        if len(result) != 12:
            _record('normalize_transform', f'{transf} -> {len(result)} numbers')
            return True
        if not _is_rotation(result[3:]):
            # inputs that are themselves far from orthogonal are the
            # caller's problem (the function warns); judge only clean inputs
            given = [v for v in list(transf)[3:12] if v is not None]
            if len(given) != 9 or _is_rotation(given, tol=1e-6):
                _record('normalize_transform', f'{list(transf)} -> '
                        f'{[round(v, 6) for v in result]} is not a proper '
                        'rotation')
            return True
        for k, val in enumerate(list(transf)[:12]):
            if val is not None and abs(float(val) - result[k]) > 1e-9:
                if k >= 3 and not _clean_partial(transf):
                    break
                _record('normalize_transform', f'entry {k + 1} of '
                        f'{list(transf)} not reproduced: {result[k]}')
                break
        return True

    def _clean_partial(transf):
        '''The supplied matrix entries can be completed to a rotation
        (rows/columns of unit length, mutually orthogonal).'''
        ent = list(transf)[3:12] + [None] * (9 - len(list(transf)[3:12]))
        mat = [[ent[3 * i + j] for j in range(3)] for i in range(3)]
        for vecs in (mat, [list(col) for col in zip(*mat)]):
            for vec in vecs:
                if all(v is not None for v in vec) and \
                        abs(sum(v * v for v in vec) - 1.0) > 1e-9:
                    return False
        return True
    _attach_contract('normalize_transform',
                     't4_geom_convert.Kernel.Transformation.Transformation',
                     'normalize_transform', nt_post)

    # -- lattice index order ------------------------------------------------
    try:
        from t4_geom_convert.Kernel.Volume import Lattice as LAT
        orig_indices = LAT.LatticeBounds.indices
    except Exception as err:  # pylint: disable=broad-except
        _unavailable('LatticeBounds.indices', err)
        orig_indices = None

    def indices(self, *args, **kwargs):
        out = list(orig_indices(self, *args, **kwargs))
        try:
            judge_indices(self, out)
        except Exception:  # pylint: disable=broad-except
            COUNTS['monitor-error.indices'] += 1
        return iter(out)

    def judge_indices(self, out):
        COUNTS['contract.indices'] += 1
        bounds = self.bounds
        expect = []

        def rec(dim, tail):
            if dim < 0:
                expect.append(tuple(tail))
                return
            lo, hi = bounds[dim]
            for val in range(lo, hi + 1):
                rec(dim - 1, [val] + tail)
        # leftmost index fastest = outermost loop over the last dimension
        def gen(dim, tail):
            if dim < 0:
                expect.append(tuple(tail))
                return
            lo, hi = bounds[dim]
            for val in range(lo, hi + 1):
                gen(dim - 1, [val] + tail)
        if bounds:
            gen(len(bounds) - 1, [])
            if out != expect:
                _record('LatticeBounds.indices', f'{bounds}: {out[:6]}... is '
                        'not first-index-fastest over the declared ranges')
    if orig_indices is not None:
        LAT.LatticeBounds.indices = indices

    # -- expand_data_card equals my own expansion ---------------------------
    def edc_post(tokens, expected, dtype, result):
        COUNTS['contract.expand_data_card'] += 1
        vals, consumed = result
        toks = [str(t).lower() for t in tokens][:consumed]
        if any(t.endswith('log') for t in toks):
            return True
        try:
            mine = model.expand_shorthand(toks)
        except (ValueError, IndexError):
            return True
        if dtype == 'int':
            mine = [None if v is None else round(v) for v in mine]
        ok = len(mine) == len(vals) and all(
            (a is None and b is None) or
            (a is not None and b is not None and abs(a - b) <= 1e-12 * max(1, abs(a)))
            for a, b in zip(mine, vals))
        if not ok:
            _record('expand_data_card', f'{toks} -> {vals}, expected {mine}')
        return True
    _attach_contract('expand_data_card', 'MIP.mip.datacard',
                     'expand_data_card', edc_post)

    # -- normalize_float keeps the value and is idempotent ------------------
    def nf_post(number, result):
        COUNTS['contract.normalize_float'] += 1
        try:
            want = matref.fortran_float(number)
        except ValueError:
            return True
        try:
            got = float(result)
        except ValueError:
            _record('normalize_float', f'{number!r} -> {result!r} is not a '
                    'number')
            return True
        if got != want:
            _record('normalize_float', f'{number!r} -> {result!r} changes '
                    f'the value ({want!r} -> {got!r})')
        return True
    _attach_contract('normalize_float', 't4_geom_convert.Kernel.Utils',
                     'normalize_float', nf_post)

    # -- rescale_fractions: proportional, sums to the concentration ---------
    def rf_post(fractions, concentration, result):
        COUNTS['contract.rescale_fractions'] += 1
        total = math.fsum(float(c) for _n, c in result)
        if result and not math.isclose(total, concentration, rel_tol=1e-12):
            _record('rescale_fractions', f'sum {total!r} != {concentration!r}')
        if [n for n, _ in result] != [n for n, _ in fractions]:
            _record('rescale_fractions', 'nuclide order changed')
        return True
    _attach_contract('rescale_fractions',
                     't4_geom_convert.Kernel.Composition.ConstructCompositionT4',
                     'rescale_fractions', rf_post)

    # -- planeParamsFromPoints: through the points, unit normal, rule -------
    def pp_post(pt1, pt2, pt3, result):
        COUNTS['contract.planeParamsFromPoints'] += 1
        a, b, c, d = result
        if abs(a * a + b * b + c * c - 1.0) > 1e-9:
            _record('planeParamsFromPoints', f'normal not unit: {result}')
        for pnt in (pt1, pt2, pt3):
            if abs(a * pnt[0] + b * pnt[1] + c * pnt[2] - d) > 1e-8 * \
                    max(1.0, max(abs(v) for v in pnt)):
                _record('planeParamsFromPoints', f'{pnt} not on {result}')
                break
        from . import mcnp_ref
        want = mcnp_ref.plane3_params((pt1, pt2, pt3))
        if sum(x * y for x, y in zip(want[:3], (a, b, c))) < 0.999999:
            # orientation differs; ARB facets are re-oriented by the caller,
            # so only record, tagged, and let the property decide
            COUNTS['contract.planeParamsFromPoints.orientation_differs'] += 1
        return True
    _attach_contract('planeParamsFromPoints',
                     't4_geom_convert.Kernel.VectUtils',
                     'planeParamsFromPoints', pp_post)


# --------------------------------------------------------------------------
# cell_transform cache events (C05)
# --------------------------------------------------------------------------
def attach_cache_events():
    if 'cache' in _ATTACHED:
        return
    _ATTACHED.add('cache')
    import inspect
    try:
        from t4_geom_convert.Kernel.Volume.CellConversion import CellConversion
        orig = CellConversion.cell_transform
        orig_ref = CellConversion.convert_cellref
        sig = inspect.signature(orig)
        sig_ref = inspect.signature(orig_ref)
        if not {'cell_key', 'transform'} <= set(sig.parameters) or \
                'cell' not in sig_ref.parameters:
            raise TypeError('cell_transform/convert_cellref have other '
                            'parameters in this tree')
    except Exception as err:  # pylint: disable=broad-except
        _unavailable('cache-events', err)
        return

    def cell_transform(self, *args, **kwargs):
        before = getattr(self, 'new_cell_key', None)
        new_key = orig(self, *args, **kwargs)
        try:
            bound = sig.bind(self, *args, **kwargs)
            bound.apply_defaults()
            judge_transform(self, before, new_key,
                            bound.arguments['cell_key'],
                            bound.arguments['transform'],
                            bound.arguments.get('cache', True))
        except Exception:  # pylint: disable=broad-except
            COUNTS['monitor-error.cell_transform'] += 1
        return new_key

    def judge_transform(self, before, new_key, cell_key, transform, cache):
        COUNTS['cache.cell_transform_calls'] += 1
        book = self.__dict__.setdefault('_vt_book', {})
        made = self.__dict__.setdefault('_vt_made', {})
        ident = (cell_key, tuple(transform) if transform else ())
        if cache:
            if ident in book:
                COUNTS['cache.hits'] += 1
                if book[ident] != new_key:
                    _record('cell_transform', f'{ident} gave {book[ident]} '
                            f'then {new_key}')
            else:
                book[ident] = new_key
        if self.new_cell_key != before:
            COUNTS['cache.new_cells'] += 1
            if new_key in made and made[new_key] != ident:
                _record('cell_transform', f'key {new_key} produced for '
                        f'{made[new_key]} and for {ident}')
            made[new_key] = ident
        elif transform and cache and new_key in made and \
                made[new_key] != ident:
            _record('cell_transform', f'{ident} answered with the cell made '
                    f'for {made[new_key]}')

    def convert_cellref(self, *args, **kwargs):
        res = orig_ref(self, *args, **kwargs)
        try:
            COUNTS['cache.convert_cellref_calls'] += 1
            cell = sig_ref.bind(self, *args, **kwargs).arguments['cell']
            if res is not None and res not in self.dic_vol_t4:
                _record('convert_cellref', f'cell {cell} -> {res} which is '
                        'not a volume')
        except Exception:  # pylint: disable=broad-except
            COUNTS['monitor-error.convert_cellref'] += 1
        return res
    CellConversion.cell_transform = cell_transform
    CellConversion.convert_cellref = convert_cellref
