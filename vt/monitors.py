'''Monitors attached from the harness to the real functions of the repository
(DESIGN §2.5).  Each monitor counts its evaluations in COUNTS and appends
violations to EVENTS; the property's run() drains EVENTS after each case.
Nothing here edits /repo: attributes are replaced in the imported modules
(and in every module that imported the function by name).'''
import collections
import functools
import math
import sys

import numpy as np

COUNTS = collections.Counter()
EVENTS = []          # dicts: monitor, detail
_ATTACHED = set()


def drain():
    out = list(EVENTS)
    EVENTS.clear()
    return out


def _replace_everywhere(original, wrapper):
    '''Replace every module-level binding of `original` (found by identity)
    by `wrapper`; returns the number of bindings replaced.'''
    count = 0
    for mod in list(sys.modules.values()):
        if mod is None or not getattr(mod, '__name__', '').startswith(
                ('t4_geom_convert', 'MIP')):
            continue
        for name, val in list(vars(mod).items()):
            if val is original:
                setattr(mod, name, wrapper)
                count += 1
    return count


# --------------------------------------------------------------------------
# de-duplication merges only identical surfaces (C13, C16)
# --------------------------------------------------------------------------
def _surf_to_eval(surf):
    from . import t4file
    text = 'GEOMETRY\n'
    block = surf.transform_block()
    kw = ''
    if block is not None:
        text += f'TRANSFORM 1 MATRIX {block}\n'
        kw = 'TRANSFORM 1 '
    text += f'SURF 1 {kw}{surf}\nENDG\n'
    t4 = t4file.parse(text)
    return t4


def attach_dedup():
    if 'dedup' in _ATTACHED:
        return
    _ATTACHED.add('dedup')
    from t4_geom_convert.Kernel.Surface import Duplicates
    from . import t4eval
    original = Duplicates.remove_duplicate_surfaces
    rng = np.random.default_rng(12345)

    @functools.wraps(original)
    def wrapper(surfs):
        before = dict(surfs.items())
        new_surfs, renumbering = original(surfs)
        COUNTS['dedup.calls'] += 1
        for key, target in renumbering.items():
            if key == target:
                continue
            COUNTS['dedup.merged_pairs'] += 1
            try:
                ta = _surf_to_eval(before[key])
                tb = _surf_to_eval(before[target])
                pts = rng.uniform(-12, 12, (96, 3))
                va = t4eval.surf_value(ta.surfs[1], pts, ta.transforms)
                vb = t4eval.surf_value(tb.surfs[1], pts, tb.transforms)
                scale = np.maximum(1.0, np.abs(va))
                if not np.all(np.abs(va - vb) <= 1e-9 * scale):
                    EVENTS.append({'monitor': 'dedup', 'detail':
                                   f'surface {key} ({before[key]}) merged '
                                   f'into {target} ({before[target]}) but '
                                   'they evaluate differently'})
            except Exception as err:  # pylint: disable=broad-except
                EVENTS.append({'monitor': 'dedup-harness', 'detail': repr(err)})
        # renumbering must be total and idempotent
        for key in before:
            if key not in renumbering:
                EVENTS.append({'monitor': 'dedup', 'detail':
                               f'surface {key} has no image'})
            elif renumbering[renumbering[key]] != renumbering[key]:
                EVENTS.append({'monitor': 'dedup', 'detail':
                               f'renumbering of {key} is not idempotent'})
        return new_surfs, renumbering
    COUNTS['dedup.bindings'] += _replace_everywhere(original, wrapper)
