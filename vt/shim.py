'''Execution substrate: import the converter from the tree under test, repair
TatSu's Protocol inheritance (DESIGN §0), run one conversion and record its
boundary (argv, deck, stdout, exception, output bytes).'''
import contextlib
import io
import os
import sys
import shutil
import tempfile
import warnings

REPO = os.environ.get('VERIF_REPO', '/repo')
_READY = False


class Inconclusive(Exception):
    '''Raised when the harness cannot observe the system under test.'''


def _apply_tatsu_shim():
    from tatsu.contexts.ctx import CanParse, Ctx

    def allsubs(cls):
        for sub in cls.__subclasses__():
            yield sub
            yield from allsubs(sub)
    import tatsu  # noqa: F401  (forces the model classes to be defined)
    import tatsu.grammars  # noqa: F401
    for cls in set(allsubs(CanParse)):
        if (cls is not Ctx and '_is_protocol' not in cls.__dict__
                and getattr(cls, '_is_protocol', False)):
            cls._is_protocol = False


def setup():
    '''Make the repo under test importable and check that it is the one that
    gets imported.'''
    global _READY
    if _READY:
        return
    sys.dont_write_bytecode = True
    if REPO not in sys.path:
        sys.path.insert(0, REPO)
    _apply_tatsu_shim()
    import t4_geom_convert
    import MIP
    root = os.path.realpath(REPO) + os.sep
    for mod in (t4_geom_convert, MIP):
        if not os.path.realpath(mod.__file__).startswith(root):
            raise Inconclusive(f'{mod.__name__} imported from {mod.__file__}, '
                               f'not from {REPO}')
    _selfcheck()
    _READY = True


def _selfcheck():
    '''The shim's own check, independent of the repository's grammar and
    semantics: a tiny left-recursive grammar with named captures must give
    the literal tree (this is exactly what breaks without the shim).'''
    import tatsu
    grammar = """
        start = sum $ ;
        sum = | l:sum o:'+' r:prod | o:prod ;
        prod = | l:prod o:'*' r:atom | o:atom ;
        atom = | l:'(' o:sum r:')' | o:/\\d+/ ;
    """
    model = tatsu.compile(grammar)

    def show(node):
        if isinstance(node, str):
            return node
        if node.get('l') == '(':
            return show(node['o'])
        if node.get('l') is None:
            return show(node['o'])
        return f"({show(node['l'])}{node['o']}{show(node['r'])})"
    expected = {
        '1+2+3': '((1+2)+3)',
        '1+2*3': '(1+(2*3))',
        '(1+2)*3': '((1+2)*3)',
        '1*2*3+4': '(((1*2)*3)+4)',
        '7': '7',
    }
    for text, tree in expected.items():
        try:
            got = show(model.parse(text))
        except Exception as err:  # pylint: disable=broad-except
            raise Inconclusive(f'TatSu shim self-check failed on {text!r}: '
                               f'{err!r}') from None
        if got != tree:
            raise Inconclusive(f'TatSu shim self-check failed: {text!r} -> '
                               f'{got}, expected {tree}')


class Run:
    '''The recorded boundary of one conversion.'''
    __slots__ = ('argv', 'deck', 'stdout', 'exc_type', 'exc_msg', 'exc_where',
                 'output', 'warnings')

    def __init__(self):
        self.argv = None
        self.deck = None
        self.stdout = ''
        self.exc_type = None
        self.exc_msg = None
        self.exc_where = None
        self.output = None
        self.warnings = []

    @property
    def ok(self):
        return self.exc_type is None

    @property
    def finished(self):
        return 'finished at' in self.stdout

    def brief(self):
        if self.ok:
            return 'ok'
        return f'{self.exc_type}: {self.exc_msg[:200]} @ {self.exc_where}'


class Workdir:
    '''A scratch directory under /dev/shm, removed on close.'''

    def __init__(self):
        base = '/dev/shm' if os.path.isdir('/dev/shm') else None
        self.path = tempfile.mkdtemp(prefix='vt-', dir=base)
        self.counter = 0

    def close(self):
        shutil.rmtree(self.path, ignore_errors=True)

    def __enter__(self):
        return self

    def __exit__(self, *exc):
        self.close()


def convert(workdir, deck, extra=(), name=None, keep_input=False,
            before=None, after=None):
    '''Run the real converter on `deck` (text) with the extra CLI arguments.
    Returns a :class:`Run`.'''
    setup()
    from t4_geom_convert.main import conversion, parse_args
    workdir.counter += 1
    name = name or f'd{workdir.counter}'
    inp = os.path.join(workdir.path, name + '.imcnp')
    out = os.path.join(workdir.path, name + '.t4')
    with open(inp, 'w', encoding='utf-8', newline='') as fil:
        fil.write(deck)
    if os.path.exists(out):
        os.remove(out)
    run = Run()
    run.deck = deck
    run.argv = ['-o', out, inp, *extra]
    if before is not None:
        before(inp, out)
    buf = io.StringIO()
    old_argv = sys.argv
    sys.argv = ['t4_geom_convert', *[a if a not in (inp, out) else
                                     os.path.basename(a) for a in run.argv]]
    try:
        with contextlib.redirect_stdout(buf), \
                contextlib.redirect_stderr(io.StringIO()), \
                warnings.catch_warnings(record=True) as wlist:
            warnings.simplefilter('always')
            try:
                conversion(parse_args(run.argv))
            except SystemExit as err:
                run.exc_type = 'SystemExit'
                run.exc_msg = str(err.code)
                run.exc_where = ''
            except RecursionError as err:
                run.exc_type = 'RecursionError'
                run.exc_msg = str(err)[:200]
                run.exc_where = ''
            except Exception as err:  # pylint: disable=broad-except
                run.exc_type = type(err).__name__
                run.exc_msg = str(err)
                tb = err.__traceback__
                where = ''
                while tb is not None:
                    fname = tb.tb_frame.f_code.co_filename
                    if ('t4_geom_convert' in fname or os.sep + 'MIP' + os.sep
                            in fname):
                        where = (os.path.basename(fname) + ':'
                                 + tb.tb_frame.f_code.co_name)
                    tb = tb.tb_next
                run.exc_where = where
        run.warnings = [str(w.message) for w in wlist]
    finally:
        sys.argv = old_argv
    run.stdout = buf.getvalue()
    if after is not None:
        after(inp, out)
    if run.ok and os.path.exists(out):
        with open(out, encoding='utf-8') as fil:
            run.output = fil.read()
    if not keep_input:
        for path in (inp, out):
            if os.path.exists(path):
                os.remove(path)
    return run
