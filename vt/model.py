'''Structured deck model, renderer to MCNP text and reference evaluation
(DESIGN §2.2).  Generators build a Deck; the converter reads the rendered
text; the oracle evaluates the Deck itself, so no second MCNP parser exists.
'''
import math
import numpy as np

from . import mcnp_ref as ref
from .mcnp_ref import Motion, IDENT


# --------------------------------------------------------------------------
# number formatting
# --------------------------------------------------------------------------
def fnum(val):
    '''Shortest repr that round-trips (so the model and the text agree
    bit-for-bit).'''
    if isinstance(val, str):
        return val
    if isinstance(val, (int, np.integer)):
        return str(int(val))
    val = float(val)
    if val == int(val) and abs(val) < 1e15:
        return str(int(val)) if abs(val) < 1e6 else repr(val)
    return repr(val)


# --------------------------------------------------------------------------
# expressions
# --------------------------------------------------------------------------
def S(sid, facet=None):
    '''Signed surface leaf: S(-3) or S(3, facet=2).'''
    return ('s', abs(int(sid)), 1 if sid > 0 else -1, facet)


def AND(*args):
    return ('*',) + tuple(args)


def OR(*args):
    return (':',) + tuple(args)


def NOT(arg):
    return ('#', arg)


def CELLC(cid):
    return ('^', int(cid))


def GROUP(arg):
    '''Redundant parentheses around a sub-expression: "( ... )".'''
    return ('g', arg)


def expr_leaves(expr):
    if expr[0] == 's':
        yield expr
    elif expr[0] in ('*', ':'):
        for sub in expr[1:]:
            yield from expr_leaves(sub)
    elif expr[0] in ('#', 'g'):
        yield from expr_leaves(expr[1])


def expr_cellrefs(expr):
    if expr[0] == '^':
        yield expr[1]
    elif expr[0] in ('*', ':'):
        for sub in expr[1:]:
            yield from expr_cellrefs(sub)
    elif expr[0] in ('#', 'g'):
        yield from expr_cellrefs(expr[1])


def expr_size(expr):
    if expr[0] in ('s', '^'):
        return 1
    if expr[0] in ('#', 'g'):
        return expr_size(expr[1])
    return sum(expr_size(sub) for sub in expr[1:])


def render_expr(expr, style=None, top=True):
    '''Print an expression in MCNP syntax.  `style` is a dict of spacing
    choices (see vt.formats); None gives the plain form.'''
    style = style or {}
    kind = expr[0]
    if kind == 's':
        _, sid, sign, facet = expr
        txt = ('-' if sign < 0 else style.get('plus', '')) + str(sid)
        if facet is not None:
            txt += f'.{facet}'
        return txt
    if kind == '^':
        return '#' + style.get('hash_gap', '') + str(expr[1])
    if kind == '#':
        inner = render_expr(expr[1], style, top=True)
        return ('#' + style.get('hash_gap', '') + '(' + style.get('in_par', '')
                + inner + style.get('in_par', '') + ')')
    if kind == 'g':
        inner = render_expr(expr[1], style, top=True)
        return ('(' + style.get('in_par', '') + inner
                + style.get('in_par', '') + ')')
    if kind == '*':
        parts = []
        for sub in expr[1:]:
            txt = render_expr(sub, style, top=False)
            if sub[0] == ':':
                txt = ('(' + style.get('in_par', '') + txt
                       + style.get('in_par', '') + ')')
            parts.append(txt)
        out = parts[0]
        for prev, cur in zip(parts, parts[1:]):
            # a blank is needed unless both sides are delimited by
            # parentheses or '#'
            tight = style.get('tight', False)
            if tight and (prev.endswith(')') or cur.startswith('(')
                          or cur.startswith('#')):
                out += cur
            else:
                out += style.get('isect', ' ') + cur
        return out
    if kind == ':':
        sep = style.get('union', ':')
        parts = [render_expr(sub, style, top=False) for sub in expr[1:]]
        out = sep.join(parts)
        if style.get('redundant_par') and not top:
            return out
        return out
    raise ValueError(expr)


# --------------------------------------------------------------------------
# deck objects
# --------------------------------------------------------------------------
class Surf:
    def __init__(self, sid, kind, params, tr=None, flag=''):
        self.id = int(sid)
        self.kind = kind.lower()
        self.params = list(params)
        self.tr = tr              # TR card number or None
        self.flag = flag          # '', '*', '+'

    @property
    def is_macro(self):
        return self.kind in ref.MACROBODIES

    def atoms(self):
        out = [f'{self.flag}{self.id}']
        if self.tr is not None and getattr(self, 'glued', False):
            # (a malformed card, for the fault classes: the transformation
            # number and the mnemonic written as one entry)
            out.append(f'{self.tr}{self.kind}')
        else:
            if self.tr is not None:
                out.append(str(self.tr))
            out.append(self.kind)
        out.extend(fnum(v) for v in self.params)
        return out


class TrCard:
    '''A TRn / *TRn data card.  `entries` are the numbers as written (angles
    in degrees when starred), None for a J placeholder; `motion` is the rigid
    motion MCNP assigns to it (the truth the oracle uses).'''

    def __init__(self, tid, origin, entries, starred=False, mflag=None,
                 motion=None):
        self.id = int(tid)
        self.origin = list(origin)
        self.entries = list(entries)
        self.starred = starred
        self.mflag = mflag
        self.motion = motion

    def atoms(self):
        out = [('*' if self.starred else '') + f'tr{self.id}']
        out.extend('j' if v is None else fnum(v) for v in self.origin)
        ent = list(self.entries)
        while ent and ent[-1] is None and self.mflag is None:
            ent.pop()
        out.extend('j' if v is None else fnum(v) for v in ent)
        if self.mflag is not None:
            out.append(fnum(self.mflag))
        return out


class TrSpec:
    '''Transformation attached to a cell keyword: by number or inline.'''

    def __init__(self, number=None, origin=None, entries=None, starred=False,
                 motion=None):
        self.number = number
        self.origin = origin
        self.entries = entries
        self.starred = starred
        self.motion = motion

    def atoms_paren(self):
        '''Atoms of the parenthesised part.'''
        if self.number is not None:
            vals = [str(self.number)]
        elif getattr(self, 'raw_atoms', None):
            # the numbers exactly as the generator spelled them (shorthand)
            vals = list(self.raw_atoms)
        else:
            vals = [fnum(v) for v in self.origin]
            ent = list(self.entries or [])
            while ent and ent[-1] is None:
                ent.pop()
            k = 0
            while k < len(ent):
                if ent[k] is None:
                    run = 1
                    while k + run < len(ent) and ent[k + run] is None:
                        run += 1
                    if getattr(self, 'jump_runs', False) and run > 1:
                        vals.append(f'{run}j')
                    else:
                        vals.extend(['j'] * run)
                    k += run
                else:
                    vals.append(fnum(ent[k]))
                    k += 1
        vals[0] = '(' + vals[0]
        vals[-1] = vals[-1] + ')'
        return vals


class Fill:
    def __init__(self, universe=None, ranges=None, array=None, tr=None):
        self.universe = universe      # int for FILL=n
        self.ranges = ranges          # list of (lo, hi) for array fills
        self.array = array            # flat list, first index fastest
        self.tr = tr                  # TrSpec or None


class Cell:
    def __init__(self, cid, mat=0, rho=None, geom=None, imp=None, u=None,
                 fill=None, lat=None, trcl=None, like=None, but=None):
        self.id = int(cid)
        self.mat = mat
        self.rho = rho            # density exactly as written (string)
        self.geom = geom
        self.imp = imp            # dict particle-string -> value string
        self.u = u
        self.fill = fill
        self.lat = lat
        self.trcl = trcl
        self.like = like          # base cell id for LIKE n BUT rendering
        self.but = but            # list of keyword names overridden
        self.lat_info = None      # LatticeTruth for lattice cells

    def copy(self):
        new = Cell(self.id, self.mat, self.rho, self.geom,
                   None if self.imp is None else dict(self.imp), self.u,
                   self.fill, self.lat, self.trcl, self.like,
                   None if self.but is None else list(self.but))
        new.lat_info = self.lat_info
        new.extra_opts = list(getattr(self, 'extra_opts', None) or [])
        new.u_negative = getattr(self, 'u_negative', False)
        return new


class LatticeTruth:
    '''What the generator knows about a lattice cell by construction.'''

    def __init__(self, kind, origin, vectors, hexagon=None, axis=None):
        self.kind = kind                  # 1 or 2
        self.origin = np.asarray(origin, dtype=float)
        self.vectors = [np.asarray(v, dtype=float) for v in vectors]
        self.hexagon = hexagon            # 6 vertices of the cross-section
        #                                   perpendicular to the axis
        # direction of the axis of a hexagonal prism; needed when the end
        # planes are oblique: a1 and a2 are then parallel to the end planes
        # (neighbouring elements share whole faces), not perpendicular to
        # the axis.  None = cross(a1, a2).
        self.axis = None if axis is None else np.asarray(axis, dtype=float)


class Material:
    def __init__(self, mid, entries, keywords=()):
        self.id = int(mid)
        self.entries = list(entries)      # (zaid string, fraction string)
        self.keywords = list(keywords)    # (position, 'nlib=70c')

    def atoms(self):
        out = [f'm{self.id}']
        body = []
        for zaid, frac in self.entries:
            body.append([zaid, frac])
        flat = []
        kws = sorted(self.keywords)
        for pos, pair in enumerate(body):
            for kpos, kw in kws:
                if kpos == pos:
                    flat.append(kw)
            flat.extend(pair)
        for kpos, kw in kws:
            if kpos >= len(body):
                flat.append(kw)
        return out + flat


class Deck:
    def __init__(self, title='generated deck'):
        self.title = title
        self.cells = []
        self.surfs = []
        self.trs = []
        self.mats = []
        self.imp_cards = []       # (particles string 'n' or 'n,p', [tokens])
        self.cli = []             # extra command-line arguments
        self.tags = set()
        self.world = 30.0
        self.hints = []           # points worth probing (main frame)
        self.extra_data = []      # raw data-card atom lists

    # -- lookups -------------------------------------------------------
    def cell(self, cid):
        for cel in self.cells:
            if cel.id == cid:
                return cel
        raise KeyError(cid)

    def surf(self, sid):
        for sur in self.surfs:
            if sur.id == sid:
                return sur
        raise KeyError(sid)

    def tr(self, tid):
        for trc in self.trs:
            if trc.id == tid:
                return trc
        raise KeyError(tid)

    def motion_of(self, spec):
        if spec is None:
            return None
        if spec.number is not None:
            return self.tr(spec.number).motion
        return spec.motion

    def resolved(self, cel):
        '''The explicit cell a LIKE n BUT card abbreviates (model cells are
        stored already resolved; `like`/`but` only steer the renderer).'''
        return cel

    # -- importance ----------------------------------------------------
    def importance_zero(self, cel):
        '''True iff the cell's importance is zero for every particle type.'''
        if cel.imp is not None:
            from .matref import fortran_float
            vals = [fortran_float(str(v)) for v in cel.imp.values()]
            return all(v == 0 for v in vals)
        rank = [c.id for c in self.cells].index(cel.id)
        vals = []
        for _parts, tokens in self.imp_cards:
            expanded = expand_shorthand(tokens)
            vals.append(expanded[rank])
        return all(v == 0 for v in vals)


def expand_shorthand(tokens):
    '''My own expansion of nR / nM / nI / nJ (DESIGN §2.5), independent of
    MIP's.'''
    out = []
    toks = [str(t).lower() for t in tokens]
    i = 0
    while i < len(toks):
        tok = toks[i]
        if tok.endswith('r') and (tok[:-1].isdigit() or tok == 'r'):
            reps = int(tok[:-1]) if tok[:-1] else 1
            out.extend([out[-1]] * reps)
        elif tok.endswith('m') and tok != 'm':
            out.append(out[-1] * float(tok[:-1]))
        elif tok.endswith('log') and (tok[:-3].rstrip('i').isdigit()
                                      or tok in ('log', 'ilog')):
            # nILOG / nLOG: n values in geometric progression
            head = tok[:-3].rstrip('i')
            npts = int(head) if head else 1
            upper = float(toks[i + 1])
            lower = out[-1]
            ratio = (upper / lower) ** (1.0 / (npts + 1))
            for k in range(1, npts + 1):
                out.append(lower * ratio ** k)
        elif tok.endswith('i') and (tok[:-1].isdigit() or tok == 'i'):
            npts = int(tok[:-1]) if tok[:-1] else 1
            upper = float(toks[i + 1])
            lower = out[-1]
            for k in range(1, npts + 1):
                out.append(lower + (upper - lower) * k / (npts + 1))
        elif tok.endswith('j') and (tok[:-1].isdigit() or tok == 'j'):
            reps = int(tok[:-1]) if tok[:-1] else 1
            out.extend([None] * reps)
        else:
            out.append(float(tok))
        i += 1
    return out


# --------------------------------------------------------------------------
# rendering
# --------------------------------------------------------------------------
def cell_atoms(deck, cel, style=None, expand_like=False):
    '''Atoms (blank-free chunks) of a cell card.'''
    if cel.like is not None and not expand_like:
        atoms = [str(cel.id), 'like', str(cel.like), 'but']
        atoms += option_atoms(deck, cel, only=cel.but)
        return atoms
    atoms = [str(cel.id), str(cel.mat)]
    if int(cel.mat) != 0:
        atoms.append(cel.rho)
    atoms += render_expr(cel.geom, style).split()
    atoms += option_atoms(deck, cel)
    return atoms


OPTION_GROUPS = ('mat', 'rho', 'imp', 'u', 'lat', 'fill', 'extra', 'trcl')


def option_atoms(deck, cel, only=None):
    '''Keyword part of a cell card.  The keywords come in the order of
    `cel.opt_order` (a permutation of OPTION_GROUPS) if the generator set it,
    for a LIKE card in the order of its BUT list, else in a fixed order: the
    order of the keywords on a card is free in MCNP.'''
    groups = {}

    def want(name):
        return only is None or name in only

    if only is not None and 'mat' in only:
        groups['mat'] = [f'mat={cel.mat}']
    if only is not None and 'rho' in only:
        groups['rho'] = [f'rho={cel.rho}']
    if cel.imp is not None and want('imp'):
        groups['imp'] = [f'imp:{parts}={val}'
                         for parts, val in cel.imp.items()]
    if cel.u is not None and want('u'):
        sign = '-' if getattr(cel, 'u_negative', False) else ''
        groups['u'] = [f'u={sign}{cel.u}']
    if cel.lat is not None and want('lat'):
        groups['lat'] = [f'lat={cel.lat}']
    if cel.fill is not None and want('fill'):
        out = []
        fil = cel.fill
        star = '*' if (fil.tr is not None and fil.tr.starred) else ''
        if fil.array is not None:
            rng = [f'{lo}:{hi}' for lo, hi in fil.ranges]
            out.append(f'{star}fill={rng[0]}')
            out.extend(rng[1:])
            out.extend(getattr(fil, 'render_array', None)
                       or [str(v) for v in fil.array])
        else:
            out.append(f'{star}fill={fil.universe}')
        if fil.tr is not None:
            out.extend(fil.tr.atoms_paren())
        groups['fill'] = out
    if only is None and (getattr(cel, 'extra_opts', None) or []):
        groups['extra'] = list(cel.extra_opts)
    if cel.trcl is not None and want('trcl'):
        out = []
        star = '*' if cel.trcl.starred else ''
        if cel.trcl.number is not None:
            out.append(f'{star}trcl={cel.trcl.number}')
        else:
            par = cel.trcl.atoms_paren()
            out.append(f'{star}trcl={par[0]}')
            out.extend(par[1:])
        groups['trcl'] = out
    for name in getattr(deck, 'params_on_data_cards', ()):
        # these cell parameters are written as data cards (one entry per
        # cell, in the order of the cell block) instead of keywords
        groups.pop(name, None)
    order = getattr(cel, 'opt_order', None)
    if order is None and only is not None and getattr(cel, 'but_ordered',
                                                      False):
        order = [name for name in only if name in OPTION_GROUPS]
    if order is None:
        order = OPTION_GROUPS
    order = list(order) + [g for g in OPTION_GROUPS if g not in order]
    atoms = []
    for name in order:
        atoms.extend(groups.get(name, []))
    return atoms


def renumber_surface(deck, old, new):
    '''Give surface `old` the number `new` (cards and cell expressions).'''
    def swap(expr):
        if expr[0] == 's':
            return ('s', new if expr[1] == old else expr[1], expr[2], expr[3])
        if expr[0] == '^':
            return expr
        if expr[0] in ('#', 'g'):
            return (expr[0], swap(expr[1]))
        return (expr[0],) + tuple(swap(sub) for sub in expr[1:])
    for sur in deck.surfs:
        if sur.id == old:
            sur.id = new
    for cel in deck.cells:
        cel.geom = swap(cel.geom)


def add_unrelated_cards(deck, rng):
    '''Data cards that have nothing to do with the geometry or the materials
    (tallies, source, run control): a real deck always has some, and none of
    them may disturb the conversion.'''
    cid = str(deck.cells[0].id)
    pool = [['mode', 'n'], ['nps', '1000'], ['f4:n', cid], ['+f6', cid],
            ['f6:n', cid], ['fc4', 'flux', 'in', 'the', 'first', 'cell'],
            ['e4', '1', '10'], ['sdef', 'pos=0', '0', '0', 'erg=1'],
            ['print'], ['cut:n', 'j', '0.01'], ['phys:n', '20'],
            ['ctme', '10'], ['prdmp', 'j', 'j', '1'], ['lost', '10', '10'],
            ['*f1:n', '1'], ['f2:n', '1'], ['+F16', cid], ['fm4', '1'],
            ['sd4', '1'], ['totnu'], ['kcode', '1000', '1', '10', '50'],
            ['ksrc', '0', '0', '0']]
    if deck.mats:
        pool.append([f'mt{deck.mats[0].id}', 'lwtr.10t'])
    picks = rng.sample(pool, rng.randint(1, 4))
    names = set()
    out = []
    for card in picks:
        if card[0].lower() in names:
            continue
        names.add(card[0].lower())
        out.append(card)
    deck.unrelated_data = out
    deck.tags.add('data.unrelated-cards')
    for card in out:
        if card[0].startswith('+'):
            deck.tags.add('data.plus-tally')


def vary_largest_surface(deck, rng, world=999):
    '''The outer sphere of the generated decks is numbered 999, which makes
    the surfaces the converter generates start at 1001 in every deck.  Give
    it another number now and then.'''
    used = {s.id for s in deck.surfs}
    moved = any(c.trcl is not None for c in deck.cells)
    pool = [998, 997, 300] if moved else [998, 300, 4321, 20000, 1000, 1001]
    pool = [n for n in pool if n not in used]
    if world in used and pool:
        renumber_surface(deck, world, rng.choice(pool))
        deck.tags.add('world-surface.renumbered')


def shuffle_options(deck, rng, share=0.5):
    '''Give a share of the cells a random order of their keywords.'''
    for cel in deck.cells:
        if rng.random() < share:
            order = list(OPTION_GROUPS)
            rng.shuffle(order)
            cel.opt_order = order
    deck.data_shuffle = rng.getrandbits(32)
    deck.tags.add('keywords.unordered')


def wrap_atoms(atoms, width=76):
    '''Join atoms with single blanks, continuing on lines indented by five
    blanks.'''
    lines = []
    cur = ''
    for atom in atoms:
        if not cur:
            cur = atom
        elif len(cur) + 1 + len(atom) > width:
            lines.append(cur)
            cur = '     ' + atom
        else:
            cur += ' ' + atom
    if cur:
        lines.append(cur)
    return lines


def deck_cards(deck, style=None, expand_like=False):
    '''The three blocks as lists of atom lists.'''
    cells = [cell_atoms(deck, c, style, expand_like) for c in deck.cells]
    surfs = [s.atoms() for s in deck.surfs]
    data = []
    for trc in deck.trs:
        data.append(trc.atoms())
    for parts, tokens in deck.imp_cards:
        data.append([f'imp:{parts}'] + [str(t) for t in tokens])
    for mat in deck.mats:
        data.append(mat.atoms())
    for extra in deck.extra_data:
        data.append(list(extra))
    for extra in getattr(deck, 'unrelated_data', ()):
        data.append(list(extra))
    for name in getattr(deck, 'params_on_data_cards', ()):
        if name == 'u':
            data.append(['u'] + [str(c.u or 0) for c in deck.cells])
        elif name == 'fill':
            data.append(['fill'] + [str(c.fill.universe if c.fill else 0)
                                    for c in deck.cells])
    if getattr(deck, 'data_shuffle', None) is not None:
        # the order of the cards in the data block is free as well
        import random
        random.Random(deck.data_shuffle).shuffle(data)
    return cells, surfs, data


def render(deck, style=None, expand_like=False):
    cells, surfs, data = deck_cards(deck, style, expand_like)
    lines = [deck.title]
    for card in cells:
        lines.extend(wrap_atoms(card))
    lines.append('')
    for card in surfs:
        lines.extend(wrap_atoms(card))
    lines.append('')
    for card in data:
        lines.extend(wrap_atoms(card))
    return '\n'.join(lines) + '\n'


# --------------------------------------------------------------------------
# reference evaluation
# --------------------------------------------------------------------------
class Reference:
    '''Evaluates the MCNP meaning of a Deck at arrays of points.'''

    def __init__(self, deck, quirks=()):
        self.deck = deck
        self.quirks = frozenset(quirks)
        self.cells = {c.id: c for c in deck.cells}
        self.surfs = {s.id: s for s in deck.surfs}
        self.by_universe = {}
        for cel in deck.cells:
            self.by_universe.setdefault(cel.u or 0, []).append(cel)
        self.unjudged = None      # optional mask function set by generators
        self.leaf = {}            # key -> id of the cell owning the points

    # -- surfaces ------------------------------------------------------
    def surf_motion(self, sur):
        if sur.tr is None:
            return None
        return self.deck.tr(sur.tr).motion

    def leaf_sense(self, leaf, pts):
        '''Sense (negative/positive) of a surface leaf ignoring its sign.'''
        _, sid, _sign, facet = leaf
        extra = None
        if sid not in self.surfs and sid >= 1000:
            owner = self.cells[sid // 1000]
            extra = self.deck.motion_of(owner.trcl)
            sid = sid % 1000
        sur = self.surfs[sid]
        if extra is not None:
            pts = extra.to_aux(pts)
        mot = self.surf_motion(sur)
        if mot is not None:
            pts = mot.to_aux(pts)
        if sur.is_macro:
            if facet is None:
                return ref.body_sense(sur.kind, sur.params, pts, self.quirks)
            return ref.facets(sur.kind, sur.params, pts,
                              self.quirks)[facet - 1]
        return ref.elementary(sur.kind, sur.params, pts, self.quirks)

    # -- cells ---------------------------------------------------------
    def eval_expr(self, expr, pts, frame_pts):
        kind = expr[0]
        if kind == 's':
            val = self.leaf_sense(expr, pts)
            return (val > 0) if expr[2] > 0 else (val < 0)
        if kind == '*':
            res = np.ones(len(pts), dtype=bool)
            for sub in expr[1:]:
                res &= self.eval_expr(sub, pts, frame_pts)
            return res
        if kind == ':':
            res = np.zeros(len(pts), dtype=bool)
            for sub in expr[1:]:
                res |= self.eval_expr(sub, pts, frame_pts)
            return res
        if kind == '#':
            return ~self.eval_expr(expr[1], pts, frame_pts)
        if kind == 'g':
            return self.eval_expr(expr[1], pts, frame_pts)
        if kind == '^':
            return ~self.region(self.cells[expr[1]], frame_pts)
        raise ValueError(expr)

    def region(self, cel, pts):
        '''Membership of points (given in the frame of the cell's universe)
        in the cell's own region (its surfaces moved by its TRCL).'''
        mot = self.deck.motion_of(cel.trcl)
        local = pts if mot is None else mot.to_aux(pts)
        return self.eval_expr(cel.geom, local, pts)

    # -- hierarchy -----------------------------------------------------
    def locate(self, pts):
        '''For every point the frozenset of expected volume keys.'''
        pts = np.asarray(pts, dtype=float)
        out = [set() for _ in range(len(pts))]
        idx = np.arange(len(pts))
        for cel in self.by_universe.get(0, []):
            if self.deck.importance_zero(cel):
                continue
            mask = self.region(cel, pts)
            if not mask.any():
                continue
            sel = idx[mask]
            if cel.fill is None:
                key = ('v', cel.id)
                self.leaf[key] = cel.id
                for i in sel:
                    out[i].add(key)
            else:
                self._descend(cel, pts[mask], sel, [cel.id], out)
        return [frozenset(s) for s in out]

    def fill_motion(self, cel):
        '''Frame of the filling universe relative to the cell's frame.'''
        if cel.fill is not None and cel.fill.tr is not None:
            return self.deck.motion_of(cel.fill.tr)
        if cel.trcl is not None:
            return self.deck.motion_of(cel.trcl)
        return None

    def _descend(self, cont, pts, sel, chain, out):
        '''`cont` is a filled, non-lattice cell holding the points `pts`
        (indices `sel`); chain = container ids outermost first.'''
        mot = self.fill_motion(cont)
        upts = pts if mot is None else mot.to_aux(pts)
        self._in_universe(cont.fill.universe, upts, sel, chain, out)

    def _in_universe(self, universe, upts, sel, chain, out):
        for cel in self.by_universe.get(universe, []):
            mask = self.region(cel, upts) if cel.lat is None else \
                np.ones(len(upts), dtype=bool)
            if not mask.any():
                continue
            sub = sel[mask]
            spts = upts[mask]
            if cel.lat is not None:
                self._lattice(cel, spts, sub, chain, out)
            elif cel.fill is None:
                key = ('c', tuple((cel.id, cid) for cid in reversed(chain)))
                self.leaf[key] = cel.id
                for i in sub:
                    out[i].add(key)
            else:
                self._descend(cel, spts, sub, chain + [cel.id], out)

    def _lattice(self, cel, pts, sel, chain, out):
        info = cel.lat_info
        mot = self.deck.motion_of(cel.trcl)
        lpts = pts if mot is None else mot.to_aux(pts)
        index = lattice_index(info, lpts)
        fil = cel.fill
        ndim = len(info.vectors)
        fmot = None
        if fil.tr is not None:
            fmot = self.deck.motion_of(fil.tr)
        elif mot is not None:
            fmot = mot
        uniq = {}
        for row, tup in enumerate(map(tuple, index)):
            uniq.setdefault(tup, []).append(row)
        for tup, rows in uniq.items():
            rows = np.array(rows)
            univ = lattice_universe(fil, tup, ndim)
            if univ is None or univ == 0:
                continue
            shift = sum(i * vec for i, vec in zip(tup, info.vectors))
            if univ == cel.u:
                key = ('c', tuple((None, cid) for cid in reversed(chain)))
                self.leaf[key] = cel.id
                for i in sel[rows]:
                    out[i].add(key)
                continue
            # Frame of the universe filling this element: the frame a
            # non-lattice cell would give its filler (fill transformation,
            # else the cell's TRCL), translated by the element's shift
            # expressed in the frame of the lattice's universe.
            if mot is not None:
                shift = mot.vec_to_main(shift)
            local = pts[rows] - shift
            if fmot is not None:
                local = fmot.to_aux(local)
            self._in_universe(univ, local, sel[rows], chain + [None], out)


def lattice_index(info, pts):
    '''Element index of every point, from the generator's construction.'''
    vecs = info.vectors
    ndim = len(vecs)
    rel = pts - info.origin
    if info.kind == 1:
        # reciprocal basis
        mat = np.array(vecs)                       # ndim x 3
        gram = mat @ mat.T
        rec = np.linalg.solve(gram, mat)           # ndim x 3, rec_k . a_j = d
        coords = rel @ rec.T
        return np.floor(coords + 0.5).astype(int)
    # hexagonal: two vectors across sides (+ optional axial one)
    a1, a2 = vecs[0], vecs[1]
    nrm = getattr(info, 'axis', None)
    if nrm is None:
        nrm = np.cross(a1, a2)
    nrm = nrm / np.linalg.norm(nrm)
    third = vecs[2] if ndim == 3 else nrm
    coords = np.linalg.solve(np.array([a1, a2, third]).T, rel.T).T
    base = np.floor(coords[:, :2] + 0.5).astype(int)
    hexv = np.array(info.hexagon)                  # 6 x 3, about the origin
    result = np.zeros((len(pts), ndim), dtype=int)
    found = np.zeros(len(pts), dtype=bool)
    for di in (0, -1, 1):
        for dj in (0, -1, 1):
            cand = base + np.array([di, dj])
            loc = rel - cand[:, :1] * a1 - cand[:, 1:2] * a2
            inside = _in_hexagon(loc, hexv, nrm)
            new = inside & ~found
            result[new, 0] = cand[new, 0]
            result[new, 1] = cand[new, 1]
            found |= new
    if ndim == 3:
        result[:, 2] = np.floor(coords[:, 2] + 0.5).astype(int)
    # points on hexagon edges may be unassigned: give an impossible index
    result[~found, 0] = 10**6
    return result


def _in_hexagon(loc, hexv, nrm):
    inside = np.ones(len(loc), dtype=bool)
    for k in range(6):
        p, q = hexv[k], hexv[(k + 1) % 6]
        edge = q - p
        out_n = np.cross(edge, nrm)
        # orient outward (away from the centre = origin)
        if out_n @ p < 0:
            out_n = -out_n
        inside &= ((loc - p) @ out_n) < 0
    return inside


def lattice_universe(fil, index, ndim):
    '''Universe filling element `index` (None if outside declared ranges).'''
    ranges = fil.ranges
    idx = list(index) + [0] * (len(ranges) - len(index))
    pos = 0
    stride = 1
    for (lo, hi), i in zip(ranges, idx):
        if i < lo or i > hi:
            return None
        pos += (i - lo) * stride
        stride *= hi - lo + 1
    if fil.array is not None:
        return fil.array[pos]
    return fil.universe
