'''Case/outcome plumbing, worker loop, reach monitor (DESIGN §2.1, §2.5, §5).'''
import collections
import hashlib
import importlib
import json
import os
import random
import sys
import time
import traceback

from . import shim, t4file

VERIF = os.path.dirname(os.path.dirname(os.path.abspath(__file__)))


def case_seed(seed, prop, family, index):
    txt = f'{seed}|{prop}|{family}|{index}'.encode()
    return int.from_bytes(hashlib.sha256(txt).digest()[:8], 'big')


class Case:
    def __init__(self, prop, family, index, seed, tier):
        self.prop = prop
        self.family = family
        self.index = index
        self.seed = seed
        self.tier = tier
        self.rng = random.Random(case_seed(seed, prop, family, index))

    @property
    def cid(self):
        return f'{self.prop}-{self.family}-{self.index}-s{self.seed}'

    def ident(self):
        return {'prop': self.prop, 'family': self.family, 'index': self.index,
                'seed': self.seed, 'tier': self.tier}


class Outcome:
    def __init__(self):
        self.violations = []      # dicts: kind, detail, mech (or None)
        self.judged = 0
        self.discarded = 0
        self.structure = None     # string identifying the case's structure
        self.nontrivial = True
        self.sample = None
        self.counters = collections.Counter()
        self.tags = set()
        self.decks = []           # (name, deck text, argv) kept for replay
        self.skipped = None       # reason, if the case could not be judged

    def violation(self, kind, detail, mech=None, **extra):
        item = {'kind': kind, 'detail': detail, 'mech': mech}
        item.update(extra)
        self.violations.append(item)


class Context:
    '''What a property's run() gets: conversions with the recorded boundary,
    plus the C08 validator riding on every written file.'''

    def __init__(self, workdir):
        self.workdir = workdir
        self.counters = collections.Counter()
        self.c08_problems = []
        self.rule_checks = {}
        self.last_runs = []

    def convert(self, deck_text, extra=(), **kw):
        run = shim.convert(self.workdir, deck_text, extra, **kw)
        self.counters['conversions'] += 1
        if not run.ok:
            self.counters['conversions_raised'] += 1
        self.last_runs.append(run)
        return run

    def parse(self, run):
        '''Parse and validate the written file; returns (t4, problems).'''
        t4 = t4file.parse(run.output)
        probs = t4file.validate(t4, self.rule_checks)
        self.counters['files_validated'] += 1
        return t4, probs


class Reach:
    '''sys.monitoring PY_START counters for code objects of the repo.'''

    def __init__(self):
        self.counts = collections.Counter()
        self.root = os.path.realpath(shim.REPO) + os.sep
        self.active = False
        self.tool = None

    def start(self):
        mon = getattr(sys, 'monitoring', None)
        if mon is None:
            return
        self.tool = mon.PROFILER_ID
        try:
            mon.use_tool_id(self.tool, 'vt-reach')
        except ValueError:
            return
        root = self.root
        counts = self.counts
        disable = mon.DISABLE
        names = {}

        def on_start(code, _offset):
            name = names.get(code)
            if name is None:
                fname = code.co_filename
                if not fname.startswith(root):
                    names[code] = False
                    return disable
                rel = fname[len(root):]
                name = names[code] = f'{rel}:{code.co_qualname}'
            elif name is False:
                return disable
            counts[name] += 1
            return None
        mon.register_callback(self.tool, mon.events.PY_START, on_start)
        mon.set_events(self.tool, mon.events.PY_START)
        self.active = True

    def stop(self):
        if self.active:
            mon = sys.monitoring
            mon.set_events(self.tool, 0)
            mon.register_callback(self.tool, mon.events.PY_START, None)
            mon.free_tool_id(self.tool)
            self.active = False


def load_prop(pid):
    return importlib.import_module(f'vt.props.{pid.lower()}')


def plan_cases(mod, seed, tier):
    '''Deterministic list of cases of a run: every family `count` times.'''
    cases = []
    for family, count in mod.plan(tier):
        for index in range(count):
            cases.append(Case(mod.ID, family, index, seed, tier))
    if getattr(mod, 'UPSTREAM_DECKS', False):
        # the repository's example decks that exercise this property, read
        # by the independent reader and judged by oracle R (vt/upstream.py)
        from . import upstream
        for index in range(upstream.NCHUNKS):
            cases.append(Case(mod.ID, 'upstream-examples', index, seed, tier))
    return cases


def run_one(mod, case, ctx):
    from . import monitors
    monitors.drain()
    if case.family == 'upstream-examples':
        from . import upstream
        out = upstream.run_chunk(
            case, ctx, Outcome(), mod.ID,
            all_decks=getattr(mod, 'UPSTREAM_DECKS', None) == 'all',
            extra=getattr(mod, 'upstream_judge', None),
            with_points=getattr(mod, 'UPSTREAM_POINTS', True))
        out.structure = f'upstream-examples-{case.index}'
        out.nontrivial = out.judged > 0
        if not out.counters['upstream_decks']:
            out.skipped = 'no-example-deck-in-chunk'
    else:
        out = mod.run(case, ctx)
    out.tags.add(case.family)
    for evt in monitors.drain():
        if evt['monitor'].endswith('-harness'):
            raise RuntimeError(evt['detail'])
        out.violation('contract:' + evt['monitor'], evt['detail'])
    return out


def worker_main(pid, shard, nshards, seed, tier, outpath):
    '''Run this shard's share of the plan and dump a JSON summary.'''
    started = time.time()
    result = {'shard': shard, 'evaluations': 0, 'judged': 0, 'discarded': 0,
              'violations': [], 'families': {}, 'structures': [],
              'samples': [], 'counters': {}, 'reach': {}, 'harness_errors': [],
              'skipped': {}, 'rule_checks': {}, 'tags': {}}
    try:
        os.environ['VERIF_TIER'] = tier
        shim.setup()
        mod = load_prop(pid)
        reach = Reach()
        if hasattr(mod, 'attach_monitors'):
            mod.attach_monitors()
        reach.start()
        only = os.environ.get('VERIF_ONLY_FAMILY')
        cases = [c for c in plan_cases(mod, seed, tier)
                 if not only or only in c.family]
        # (VERIF_ONLY_FAMILY is a development aid: it restricts a run to the
        # families containing the substring; never set by registered commands)
        cases = [c for i, c in enumerate(cases) if i % nshards == shard]
        budget = getattr(mod, 'SHARD_BUDGET_S', {}).get(tier)
        with shim.Workdir() as workdir:
            ctx = Context(workdir)
            fams = collections.Counter()
            tags = collections.Counter()
            structures = set()
            counters = collections.Counter()
            for case in cases:
                if budget and time.time() - started > budget:
                    result['skipped']['budget'] = \
                        result['skipped'].get('budget', 0) + 1
                    continue
                ctx.last_runs = []
                try:
                    out = run_one(mod, case, ctx)
                except shim.Inconclusive:
                    raise
                except Exception:  # harness bug: never a verdict
                    result['harness_errors'].append(
                        {'case': case.ident(),
                         'trace': traceback.format_exc()[-1500:]})
                    continue
                result['evaluations'] += 1
                fams[case.family] += 1
                for tag in out.tags:
                    tags[tag] += 1
                if out.skipped:
                    result['skipped'][out.skipped] = \
                        result['skipped'].get(out.skipped, 0) + 1
                    continue
                result['judged'] += out.judged
                result['discarded'] += out.discarded
                counters.update(out.counters)
                if getattr(out, 'structures', None):
                    structures.update(out.structures)
                elif out.structure is not None and out.nontrivial:
                    structures.add(out.structure)
                if out.sample is not None and len(result['samples']) < 3:
                    if out.decks and not result['samples']:
                        # one full input of this run, as the converter saw it
                        out.sample.setdefault('deck_text',
                                              out.decks[0][1][:1500])
                        out.sample.setdefault('argv', out.decks[0][2])
                    result['samples'].append(out.sample)
                for vio in out.violations:
                    vio = dict(vio)
                    vio['case'] = case.ident()
                    vio['tags'] = sorted(out.tags)
                    vio['decks'] = out.decks[:4]
                    result['violations'].append(vio)
            counters.update(ctx.counters)
            result['families'] = dict(fams)
            result['tags'] = dict(tags)
            result['structures'] = sorted(structures)
            result['counters'] = dict(counters)
            result['rule_checks'] = dict(ctx.rule_checks)
        reach.stop()
        result['reach'] = dict(reach.counts)
        from . import monitors
        result['monitors'] = dict(monitors.COUNTS)
        result['monitors_unavailable'] = dict(monitors.UNAVAILABLE)
    except shim.Inconclusive as err:
        result['inconclusive'] = str(err)
    except Exception:  # pylint: disable=broad-except
        result['inconclusive'] = 'worker crashed: ' + traceback.format_exc()[-1500:]
    result['wall_s'] = time.time() - started
    # group the violations by (kind, mechanism); keep a few verbatim
    groups = {}
    for vio in result.pop('violations'):
        key = f"{vio['kind']}|{vio.get('mech') or ''}"
        grp = groups.setdefault(key, {'kind': vio['kind'],
                                      'mech': vio.get('mech'),
                                      'count': 0, 'examples': []})
        grp['count'] += 1
        if len(grp['examples']) < 3:
            grp['examples'].append(vio)
    result['violation_groups'] = groups
    with open(outpath, 'w') as fil:
        json.dump(result, fil)


if __name__ == '__main__':
    # kill -USR1 <worker> writes the Python stacks to the worker's log
    import faulthandler
    import signal
    faulthandler.register(signal.SIGUSR1, all_threads=True)
    worker_main(sys.argv[1], int(sys.argv[2]), int(sys.argv[3]),
                int(sys.argv[4]), sys.argv[5], sys.argv[6])
