'''Generators of decks with universes and FILL (C05) - also reused by C08,
C09, C13, C14, C18.'''
import numpy as np

from . import model as M
from .mcnp_ref import Motion
from .gen_surf import rnd, nz, motion_of_class, tr_card, tr_spec
from .decks import WORLD_SURF

FAMILIES = ['depth1', 'depth2', 'depth3', 'depth4', 'reuse-diff-tr',
            'reuse-same-tr', 'fill-num', 'fill-inline3', 'fill-inline12',
            'fill-star', 'trcl-only', 'both', 'filler-trcl', 'filler-compl',
            'clip', 'both-identity-fill', 'shared-surface-number',
            'reuse-int-translations', 'reuse-mirror', 'universe-imp0',
            'facet-universe', 'negative-universe', 'mixed']

SLOTS = [(-5.0, -5.0, 0.0), (0.0, -5.0, 0.5), (5.0, -5.0, -0.5),
         (-5.0, 0.0, 0.5), (0.0, 0.0, 0.0), (5.0, 0.0, 0.3),
         (-5.0, 5.0, -0.3), (0.0, 5.0, 0.2), (5.0, 5.0, 0.0)]

ROTS = ['generic', 'generic', 'permutation', 'flip-x', 'flip-z', 'quarter',
        'translation']


class Builder:
    def __init__(self, rng, title):
        self.rng = rng
        self.deck = M.Deck(title)
        self.deck.world = 12.0
        self.next_tr = 1
        self.next_u = 1
        self.mats = {}

    def material(self):
        mid = len(self.mats) + 1
        rho = f'-{mid}.{self.rng.randint(1, 9)}'
        self.mats[mid] = rho
        self.deck.mats.append(M.Material(mid, [('13027', '1')]))
        return mid, rho

    def universe(self, depth=0, size=1.6, fill_spec=None, style=None):
        '''Create a universe of 2-3 cells partitioning space; returns its
        number.  `depth` > 0 fills one of its cells with a deeper universe.'''
        rng = self.rng
        unum = self.next_u
        self.next_u += 1
        base = 100 * unum
        style = style or rng.choice(['sphere', 'plane-sphere', 'union',
                                     'cyl', 'ellipsoid', 'facets'])
        cen = [rnd(rng, -0.5, 0.5), rnd(rng, -0.5, 0.5), rnd(rng, -0.5, 0.5)]
        rad = rnd(rng, 0.5 * size, 0.8 * size)
        surfs = []
        if style == 'facets':
            # three slabs cut by two opposite facets of one macrobody
            kind = rng.choice(['rpp', 'box', 'rcc'])
            if kind == 'rpp':
                par = [cen[0] - 0.4 * rad, cen[0] + 0.5 * rad,
                       cen[1] - rad, cen[1] + rad, cen[2] - rad, cen[2] + rad]
                pair = (1, 2)
            elif kind == 'box':
                par = [cen[0] - 0.4 * rad, cen[1] - rad, cen[2] - rad,
                       0.9 * rad, 0, 0, 0, 2 * rad, 0, 0, 0, 2 * rad]
                pair = (1, 2)
            else:
                par = [cen[0], cen[1], cen[2] - 0.4 * rad, 0, 0, 0.9 * rad,
                       2 * rad]
                pair = (2, 3)
            par = [round(float(v), 3) for v in par]
            self.deck.surfs.append(M.Surf(base + 1, kind, par))
            s1 = base + 1
            geoms = [M.S(s1, facet=pair[0]),
                     M.AND(M.S(-s1, facet=pair[0]), M.S(-s1, facet=pair[1])),
                     M.S(s1, facet=pair[1])]
            cells = []
            for j, geom in enumerate(geoms, start=1):
                mat, rho = self.material()
                cells.append(M.Cell(base + j, mat=mat, rho=rho, geom=geom,
                                    imp={'n': '1'}, u=unum))
            self.deck.cells.extend(cells)
            return unum
        if style == 'cyl':
            surfs.append(M.Surf(base + 1, 'c/z', [cen[0], cen[1], rad]))
        elif style == 'ellipsoid':
            surfs.append(M.Surf(base + 1, 'sq', [
                1 / rad**2, 1 / (0.7 * rad)**2, 1 / (1.2 * rad)**2, 0, 0, 0, -1,
                cen[0], cen[1], cen[2]]))
        else:
            surfs.append(M.Surf(base + 1, 's', cen + [rad]))
        s1 = base + 1
        cells = []
        if style in ('sphere', 'cyl', 'ellipsoid'):
            geoms = [M.S(-s1), M.S(s1)]
        elif style == 'plane-sphere':
            surfs.append(M.Surf(base + 2, 'p',
                                [nz(rng, 0.3, 1), nz(rng, 0.3, 1),
                                 nz(rng, 0.3, 1), rnd(rng, -0.3, 0.3)]))
            s2 = base + 2
            geoms = [M.S(-s1), M.AND(M.S(s1), M.S(-s2)),
                     M.AND(M.S(s1), M.S(s2))]
        else:  # union + complement of a sibling
            surfs.append(M.Surf(base + 2, 'px', [rnd(rng, -0.3, 0.3)]))
            s2 = base + 2
            geoms = [M.OR(M.S(-s1), M.S(-s2)), M.CELLC(base + 1)]
        for j, geom in enumerate(geoms, start=1):
            mat, rho = self.material()
            cells.append(M.Cell(base + j, mat=mat, rho=rho, geom=geom,
                                imp={'n': '1'}, u=unum))
        self.deck.surfs.extend(surfs)
        self.deck.cells.extend(cells)
        if depth > 0:
            inner = self.universe(depth - 1, size=0.6 * size)
            host = cells[0]
            form = rng.choice(['num', 'inline12', 'inline3', 'star', 'none'])
            host.fill = self.fill_of(inner, form, around=cen,
                                     rot=rng.choice(ROTS))
        return unum

    def fill_of(self, universe, form, around=(0, 0, 0), rot='generic',
                motion=None):
        '''A Fill of `universe` whose transformation (if any) puts the
        universe's origin near `around`.'''
        rng = self.rng
        if form == 'none':
            return M.Fill(universe=universe)
        if motion is None:
            motion = motion_of_class(rng, rot if form != 'inline3'
                                     else 'translation')
            jitter = [rnd(rng, -0.3, 0.3) for _ in range(3)]
            motion = Motion(np.array(around, dtype=float) + jitter, motion.b)
        if form == 'num':
            tid = self.next_tr
            self.next_tr += 1
            spelling = rng.choice(['12', '13', 'star', '6-rows'])
            self.deck.trs.append(tr_card(rng, tid, motion, spelling))
            return M.Fill(universe=universe, tr=M.TrSpec(number=tid))
        spec = tr_spec(rng, motion, form)
        return M.Fill(universe=universe, tr=spec)

    def container(self, cid, slot, fill, shape=None, trcl=None, at_origin=False):
        '''A level-0 cell of simple shape at the slot position.'''
        rng = self.rng
        pos = np.zeros(3) if at_origin else np.array(slot, dtype=float)
        shape = shape or rng.choice(['s', 'rpp', 'c/z'])
        if shape == 's':
            sur = M.Surf(cid, 's', list(pos) + [rnd(rng, 1.5, 2.2)])
            geom = M.S(-cid)
        elif shape == 'rpp':
            half = [rnd(rng, 1.2, 2.0) for _ in range(3)]
            par = []
            for cen, hlf in zip(pos, half):
                par += [round(cen - hlf, 3), round(cen + hlf, 3)]
            sur = M.Surf(cid, 'rpp', par)
            geom = M.S(-cid)
        else:
            sur = M.Surf(cid, 'c/z', [pos[0], pos[1], rnd(rng, 1.4, 2.0)])
            self.deck.surfs.append(M.Surf(cid + 50, 'pz', [round(pos[2] - 1.8, 3)]))
            self.deck.surfs.append(M.Surf(cid + 60, 'pz', [round(pos[2] + 1.7, 3)]))
            geom = M.AND(M.S(-cid), M.S(cid + 50), M.S(-(cid + 60)))
        self.deck.surfs.append(sur)
        mat, rho = self.material()
        cel = M.Cell(cid, mat=mat, rho=rho, geom=geom, imp={'n': '1'},
                     fill=fill, trcl=trcl)
        self.deck.cells.append(cel)
        self.deck.hints.append(np.array(slot, dtype=float))
        return cel

    def finish(self, containers):
        deck = self.deck
        deck.surfs.append(M.Surf(WORLD_SURF, 'so', [deck.world]))
        rest = M.AND(*[M.CELLC(c) for c in containers], M.S(-WORLD_SURF))
        mat, rho = self.material()
        deck.cells.append(M.Cell(90, mat=mat, rho=rho, geom=rest,
                                 imp={'n': '1'}))
        deck.cells.append(M.Cell(900, mat=0, geom=M.S(WORLD_SURF),
                                 imp={'n': '0'}))
        # level-0 cells first, universes after (order is free in MCNP)
        deck.cells.sort(key=lambda c: (c.u is not None, c.id))
        deck.surfs.sort(key=lambda s: s.id)
        if self.rng.random() < 0.25:
            # the order of the cards inside a block is free in MCNP
            self.rng.shuffle(deck.surfs)
            deck.tags.add('cards.unordered')
        if self.rng.random() < 0.25:
            # ... and so is the order of the cell cards: a universe may be
            # written before the cell it fills
            self.rng.shuffle(deck.cells)
            deck.tags.add('cells.unordered')
        if self.rng.random() < 0.3:
            M.shuffle_options(deck, self.rng)
        if self.rng.random() < 0.3:
            M.vary_largest_surface(deck, self.rng)
        if self.rng.random() < 0.15:
            M.add_unrelated_cards(deck, self.rng)
        return deck


def build(rng, family):
    if family == 'mixed':
        family = rng.choice([f for f in FAMILIES if f != 'mixed'])
    bld = Builder(rng, f'C05 {family}')
    deck = bld.deck
    slots = SLOTS[:]
    rng.shuffle(slots)
    containers = []

    def add(fill_form, universe, slot, rot=None, trcl_form=None, motion=None,
            shape=None):
        cid = len(containers) + 1
        rot = rot or rng.choice(ROTS)
        trcl = None
        at_origin = False
        if trcl_form:
            # the container is described at the origin and moved by TRCL
            at_origin = True
            tmot = motion_of_class(rng, rot if trcl_form != 'inline3'
                                   else 'translation')
            tmot = Motion(np.array(slot, dtype=float), tmot.b)
            if trcl_form == 'num':
                tid = bld.next_tr
                bld.next_tr += 1
                deck.trs.append(tr_card(rng, tid, tmot, rng.choice(['12', 'star'])))
                trcl = M.TrSpec(number=tid)
            else:
                trcl = tr_spec(rng, tmot, trcl_form)
        fill = bld.fill_of(universe, fill_form, around=slot, rot=rot,
                           motion=motion)
        bld.container(cid, slot, fill, shape=shape, trcl=trcl,
                      at_origin=at_origin)
        containers.append(cid)
        return fill

    if family.startswith('depth'):
        depth = int(family[-1])
        for k in range(rng.randint(1, 2)):
            uni = bld.universe(depth - 1, size=1.8)
            add(rng.choice(['num', 'inline12', 'inline3', 'star']), uni,
                slots[k])
    elif family == 'reuse-diff-tr':
        uni = bld.universe(rng.randint(0, 1))
        for k in range(rng.randint(2, 3)):
            add(rng.choice(['num', 'inline12', 'star']), uni, slots[k])
    elif family == 'reuse-same-tr':
        uni = bld.universe(rng.randint(0, 1))
        # the same transformation number in two large overlapping-free
        # containers is impossible, so the containers are two halves of one
        # region around the same slot: use the *same* TR number twice
        mot = motion_of_class(rng, rng.choice(ROTS))
        mot = Motion(np.array(slots[0], dtype=float), mot.b)
        tid = bld.next_tr
        bld.next_tr += 1
        deck.trs.append(tr_card(rng, tid, mot, '12'))
        cut = 80
        deck.surfs.append(M.Surf(cut, 'px', [slots[0][0] + 0.2]))
        for k, sign in enumerate((-1, 1)):
            cid = k + 1
            sur = M.Surf(cid, 's', list(slots[0]) + [2.0 + 0.1 * k])
            deck.surfs.append(sur)
            mat, rho = bld.material()
            deck.cells.append(M.Cell(
                cid, mat=mat, rho=rho, geom=M.AND(M.S(-cid), M.S(sign * cut)),
                imp={'n': '1'},
                fill=M.Fill(universe=uni, tr=M.TrSpec(number=tid))))
            containers.append(cid)
        deck.hints.append(np.array(slots[0]))
        # and a third container elsewhere with another transformation
        add('inline12', uni, slots[1])
    elif family in ('fill-num', 'fill-inline3', 'fill-inline12', 'fill-star'):
        form = family.split('-')[1]
        for k in range(rng.randint(1, 3)):
            add(form, bld.universe(rng.randint(0, 1)), slots[k])
    elif family == 'trcl-only':
        for k in range(rng.randint(1, 2)):
            add('none', bld.universe(rng.randint(0, 1)), slots[k],
                trcl_form=rng.choice(['num', 'inline12', 'star', 'inline3']))
    elif family == 'both':
        for k in range(rng.randint(1, 2)):
            add(rng.choice(['num', 'inline12', 'star']),
                bld.universe(0), slots[k],
                trcl_form=rng.choice(['num', 'inline12', 'star']))
    elif family == 'both-identity-fill':
        # an explicit IDENTITY fill transformation still counts as a fill
        # transformation: the container's TRCL must not move the filler
        for k in range(rng.randint(1, 2)):
            uni = bld.universe(0)
            cid = len(containers) + 1
            spelling = rng.choice(['inline3', 'inline12', 'star', 'num3',
                                   'num12'])
            ident = Motion()
            if spelling.startswith('num'):
                tid = bld.next_tr
                bld.next_tr += 1
                deck.trs.append(tr_card(rng, tid, ident,
                                        '3' if spelling == 'num3' else '12'))
                fill = M.Fill(universe=uni, tr=M.TrSpec(number=tid))
            else:
                fill = M.Fill(universe=uni, tr=tr_spec(rng, ident, spelling))
            # small displacement so that the unmoved universe content is
            # still inside the moved container
            tmot = motion_of_class(rng, rng.choice(['generic', 'translation',
                                                    'quarter']))
            tmot = Motion([rnd(rng, -0.6, 0.6) for _ in range(3)], tmot.b)
            trcl = tr_spec(rng, tmot, rng.choice(['inline12', 'star']))
            if k == 0:
                bld.container(cid, (0.0, 0.0, 0.0), fill, trcl=trcl,
                              at_origin=True)
                containers.append(cid)
    elif family == 'shared-surface-number':
        # the filling universe is cut by the very surface number that bounds
        # the container; through the fill transformation it is a different
        # surface in the container's frame
        for k in range(rng.randint(1, 2)):
            cid = len(containers) + 1
            unum = bld.next_u
            bld.next_u += 1
            rad = rnd(rng, 1.8, 2.4)
            deck.surfs.append(M.Surf(cid, 's', list(slots[k]) + [rad]))
            for j, sign in enumerate((-1, 1), start=1):
                mat, rho = bld.material()
                deck.cells.append(M.Cell(100 * unum + j, mat=mat, rho=rho,
                                         geom=M.S(sign * cid), imp={'n': '1'},
                                         u=unum))
            form = rng.choice(['num', 'inline12', 'inline3', 'star'])
            mot = motion_of_class(rng, 'generic' if form != 'inline3'
                                  else 'translation')
            mot = Motion([rnd(rng, 0.8, 1.6) * (1 if rng.random() < 0.5 else -1)
                          for _ in range(3)], mot.b)
            fill = bld.fill_of(unum, form, motion=mot)
            mat, rho = bld.material()
            deck.cells.append(M.Cell(cid, mat=mat, rho=rho, geom=M.S(-cid),
                                     imp={'n': '1'}, fill=fill))
            deck.hints.append(np.array(slots[k], dtype=float))
            containers.append(cid)
    elif family == 'reuse-int-translations':
        # one universe placed by many small-integer translations that differ
        # in one coordinate only (cache keys that are "almost equal")
        uni = bld.universe(0, size=0.5)
        axis = rng.randrange(3)
        fixed = [rng.randint(-2, 2) for _ in range(3)]
        vals = rng.sample([-4, -3, -2, -1, 0, 1, 2, 3, 4], rng.randint(3, 6))
        for val in vals:
            cid = len(containers) + 1
            pos = list(fixed)
            pos[axis] = val
            form = rng.choice(['inline3', 'inline12', 'num'])
            mot = Motion([float(v) for v in pos])
            fill = bld.fill_of(uni, form, motion=mot)
            deck.surfs.append(M.Surf(cid, 's', [float(v) for v in pos] + [0.45]))
            mat, rho = bld.material()
            deck.cells.append(M.Cell(cid, mat=mat, rho=rho, geom=M.S(-cid),
                                     imp={'n': '1'}, fill=fill))
            deck.hints.append(np.array(pos, dtype=float))
            containers.append(cid)
    elif family == 'reuse-mirror':
        # the same universe through a transformation and through its mirror
        # image (same displacement, same first two matrix rows, third row
        # negated), in the two halves of one region
        # an oblique plane through an off-centre sphere: not mirror-symmetric
        uni = bld.universe(0, style='plane-sphere')
        base = motion_of_class(rng, rng.choice(['generic', 'identity',
                                                'quarter']))
        org = np.array(slots[0], dtype=float)
        bmat2 = base.b.copy()
        bmat2[2] = -bmat2[2]
        cut = 80
        deck.surfs.append(M.Surf(cut, 'pz', [slots[0][2] + 0.1]))
        for k, (bmat, sign) in enumerate(((base.b, -1), (bmat2, 1))):
            cid = k + 1
            deck.surfs.append(M.Surf(cid, 's', list(slots[0]) + [2.0 + 0.1 * k]))
            mot = Motion(org, bmat)
            form = rng.choice(['inline12', 'num'])
            if form == 'num':
                tid = bld.next_tr
                bld.next_tr += 1
                deck.trs.append(M.TrCard(tid, [float(v) for v in org],
                                         [float(v) for v in bmat.reshape(9)],
                                         motion=mot))
                fill = M.Fill(universe=uni, tr=M.TrSpec(number=tid))
            else:
                fill = M.Fill(universe=uni, tr=M.TrSpec(
                    origin=[float(v) for v in org],
                    entries=[float(v) for v in bmat.reshape(9)], motion=mot))
            mat, rho = bld.material()
            deck.cells.append(M.Cell(cid, mat=mat, rho=rho,
                                     geom=M.AND(M.S(-cid), M.S(sign * cut)),
                                     imp={'n': '1'}, fill=fill))
            containers.append(cid)
        deck.hints.append(org)
        deck.tags.add('tr.mirror')
    elif family == 'universe-imp0':
        # cells of the filling universe with zero importance: only the
        # importance of the level-0 cell decides what is converted
        for k in range(rng.randint(1, 2)):
            uni = bld.universe(rng.randint(0, 1))
            ucells = [c for c in deck.cells if c.u == uni]
            for cel in rng.sample(ucells, rng.randint(1, len(ucells))):
                cel.imp = {'n': '0'}
            add(rng.choice(['num', 'inline12', 'inline3']), uni, slots[k])
    elif family == 'facet-universe':
        for k in range(rng.randint(1, 2)):
            uni = bld.universe(0, style='facets')
            add(rng.choice(['num', 'inline12', 'star', 'inline3']), uni,
                slots[k])
        uni = bld.universe(0, style='facets')
        add('none', uni, slots[2], trcl_form='inline12')
    elif family == 'negative-universe':
        # u=-n: same universe n (the sign only tells MCNP that the cell is
        # not truncated by the filled cell)
        for k in range(rng.randint(1, 2)):
            uni = bld.universe(rng.randint(0, 1), size=1.0)
            for cel in deck.cells:
                if cel.u == uni and rng.random() < 0.7:
                    cel.u_negative = True
            add(rng.choice(['num', 'inline12', 'inline3']), uni, slots[k])
    elif family == 'filler-trcl':
        uni = bld.universe(0, style='plane-sphere')
        # give one filler cell its own TRCL (a pure translation keeps the
        # partition a partition only approximately; overlaps are judged as
        # sets, so this is fine)
        ucells = [c for c in deck.cells if c.u == uni]
        ucells[0].trcl = tr_spec(rng, Motion([0.3, -0.2, 0.1]), 'inline3')
        add(rng.choice(['num', 'inline12']), uni, slots[0])
        add('inline3', uni, slots[1])
    elif family == 'filler-compl':
        uni = bld.universe(rng.randint(0, 1), style='union')
        add(rng.choice(['num', 'inline12', 'star']), uni, slots[0])
        add('none', uni, slots[1], trcl_form='inline12')
    elif family == 'clip':
        uni = bld.universe(0, size=4.0)
        add(rng.choice(['num', 'inline12']), uni, slots[0], shape='rpp')
        add('inline3', uni, slots[1], shape='c/z')
    deck = bld.finish(containers)
    deck.tags.add(f'c05.{family}')
    return deck


def structure_of(deck):
    parts = []
    for cel in deck.cells:
        fil = ''
        if cel.fill is not None:
            trs = cel.fill.tr
            kind = ('none' if trs is None else 'num' if trs.number is not None
                    else ('star' if trs.starred else f'inl{len(trs.entries)}'))
            fil = f'fill{cel.fill.universe}:{kind}'
        parts.append(f'{cel.id}u{cel.u}{fil}{"T" if cel.trcl else ""}')
    kinds = ','.join(s.kind for s in deck.surfs)
    return kinds + '|' + ';'.join(parts)
