#!/usr/bin/env python3
'''Regenerate MANIFEST.json from the table below (keeps it valid at all
times).  Run: python3 tools_manifest.py'''
import json

LEVEL_NOTE = ('Trusted base: the MCNP reference semantics in vt/mcnp_ref.py and '
              'vt/model.py (my reading of the MCNP manual), the TRIPOLI-4 '
              'evaluator vt/t4eval.py (conventions of Oracle/src/explainT4.cc), '
              'TatSu 5.24.0 with the harness-side _is_protocol shim, NumPy. '
              'Holds only for the executions observed.')

REGION = ('runtime monitoring: offline region-agreement checker over recorded '
          'conversions vs an executable reference model')

CHECKS = {
    'C02': ('exploration',
            'Runs the real converter on generated one-surface decks for every '
            'mnemonic and parameter family and compares, at thousands of probe '
            'points per deck (uniform + pairs straddling every boundary of '
            'either side at 1e-3), the cell each point belongs to in the written '
            'file with the sign of the MCNP card equation. Held = no disagreeing '
            'judged probe on the decks explored; not a proof over all parameter '
            'vectors.',
            REGION, '3 C02'),
    'C01': ('exploration',
            'Runs the real converter on generated universe-free decks covering '
            'every Boolean rewriting path (complements of cells and expressions, '
            'union helper planes, largest-intersection extraction, pruning, '
            'flattening) and compares per probe point the set of non-virtual '
            'volumes holding it with the set of MCNP cells (importance non-zero) '
            'whose region holds it; also every non-virtual VOLU number must be a '
            'live cell number. Held on the decks and points explored.',
            REGION, '3 C01'),
    'C03': ('exploration',
            'Same oracle on one-macrobody decks with cells -b, +b, +b.k, -b.k for '
            'every facet of every body kind/parameterisation, against inside '
            'predicates and MCNP facet numbering written from the manual.',
            REGION, '3 C03'),
    'C04': ('exploration',
            'Same oracle on decks where one object is moved through every attach '
            'point (TR number on the card, TRCL by number/inline 3,12,13/starred, '
            'implicit 1000*cell+surface) x rotation class x TR spelling; the '
            'reference moves the untransformed object by main = O + B^T aux.',
            REGION + '; rotation-completion contracts on the real normalize_* '
            'functions', '3 C04'),
    'C05': ('exploration',
            'Oracle R on decks with universes nested to depth 4, every fill / '
            'TRCL spelling, reuse of a universe with different and identical '
            'transformations; the reference locates each probe through the '
            'hierarchy and predicts the (filler, container) provenance chain of '
            'the volume that must hold it.',
            REGION, '3 C05'),
    'C06': ('exploration',
            'Oracle R on LAT=1 decks built from chosen lattice vectors, so that '
            'the element index, the first-index-fastest array order, own-universe '
            'and 0 entries, declared ranges and fill/TRCL composition are known '
            'by construction and compared at probe points in and just outside '
            'every element.',
            REGION, '3 C06'),
    'C07': ('exploration',
            'Same for LAT=2 decks: hexagons built from three vertex vectors '
            '(regular and irregular, any orientation, 6 or 8 planes, both '
            'handednesses and plane orders).',
            REGION, '3 C07'),
    'C08': ('exploration',
            'Every file written for the generators of C01/C05/C06/C07 and for '
            'hostile decks, under random option combinations, is re-read by an '
            'independent tokenizer and checked against ~25 named cross-reference '
            'rules; evidence reports the number of individual rule checks.',
            'runtime monitoring: structural validator (offline checker) over '
            'every written file', '3 C08'),
    'C09': ('exploration',
            'For every non-virtual volume that holds judged probe points the '
            'GEOMCOMP composition is compared with (material, density value) of '
            'the leaf cell the reference model locates there; same-value '
            'respellings must share one composition, different values must not.',
            REGION + ' joined with the GEOMCOMP/COMPOSITION blocks', '3 C09'),
    'C10': ('exploration',
            'COMPOSITION blocks written for generated material cards are '
            're-read and compared nuclide by nuclide with an independent ZAID '
            'table and the density/fraction rules; mixed signs must raise.',
            'runtime monitoring: offline checker of the COMPOSITION block vs a '
            'reference model of material cards', '3 C10'),
    'C11': ('exploration',
            'The real MIP -> cellcard.split -> get_ast -> pot_complement path is '
            'driven with expression strings printed from my own AST; the tree '
            'that comes back is evaluated on all 2^n sense assignments. The core '
            '(all trees up to 3 leaves quick / 4 leaves thorough, 4 spacing '
            'policies) is enumerated completely; larger trees are sampled.',
            'runtime monitoring: truth-table oracle on the real parser and '
            'complement elimination, exhaustive bounded core', '3 C11'),
    'C12': ('exploration',
            'Set of VOLU numbers and the NOTE line on stdout are compared with '
            'the zero-importance cells computed from cell-card keywords or IMP '
            'data cards (own shorthand expansion).',
            'runtime monitoring: offline checker of VOLU ids and stdout vs an '
            'importance model', '3 C12'),
    'C13': ('exploration',
            'Each deck is converted under many option sets; every output must '
            'agree with the reference model at the same probes and give every '
            'provenance key the same composition; a contract on the real '
            'remove_duplicate_surfaces evaluates every merged pair of surfaces.',
            REGION + ' across option sets; contract on the real '
            'de-duplication function', '3 C13'),
    'C14': ('exploration',
            'Metamorphic: outputs of a deck and of its MCNP-equivalent rewrites '
            '(case, blanks, tabs, continuations, comments, message block, number '
            'respellings, shorthand) must be token-equal.',
            'runtime monitoring: metamorphic output comparison over recorded '
            'conversions', '3 C14'),
    'C15': ('exploration',
            'Metamorphic: the deck with LIKE n BUT cards and the deck with the '
            'cards expanded explicitly must give token-equal outputs; both also '
            'checked against the reference model.',
            'runtime monitoring: metamorphic output comparison + ' + REGION[20:],
            '3 C15'),
    'C16': ('exploration',
            'BOUNDARY_CONDITION entries are matched with the flagged surfaces of '
            'the model by kind and by locus (independent evaluation of the '
            'designated SURF), with duplicates, TR numbers, unused and '
            'imp=0-only surfaces, macrobody flags.',
            'runtime monitoring: offline checker of the BOUNDARY_CONDITION '
            'block vs flagged model surfaces', '3 C16'),
    'C17': ('fault_enumeration',
            'For every fault class of the statement one fault is injected at '
            'every applicable site of valid generated decks (the valid deck must '
            'convert first); the faulty run must raise / exit non-zero and never '
            'print "finished at". Counted per class and site.',
            'runtime monitoring: fault injection at every applicable site, '
            'exit/exception oracle', '3 C17'),
    'C18': ('exploration',
            'History monitor: random sequences of conversions (incl. failing '
            'ones) in one interpreter with recurrences, fresh processes under '
            'several hash seeds, audit hook on file access, input bytes/mtime, '
            'module-state fingerprints before/after every conversion.',
            'runtime monitoring: history checker (byte equality across '
            'recurrences/processes/hash seeds), sys.addaudithook, module-state '
            'snapshots', '3 C18'),
}

PENDING = {}


def main():
    ids = [f'C{n:02d}' for n in range(1, 19)]
    checks = []
    for pid in ids:
        if pid not in CHECKS:
            continue
        level, text, technique, ref = CHECKS[pid]
        checks.append({
            'property_id': pid,
            'quick_cmd': f'./check {pid} --tier quick',
            'thorough_cmd': f'./check {pid} --tier thorough',
            'evidence_file': f'/verif/evidence/{pid}.json',
            'replay_cmd_template': f'./check {pid} --replay {{path}}',
            'engine': 'vt',
            'level_claimed': {'category': level, 'text': text,
                              'design_ref': f'DESIGN.md section {ref}'},
            'level_note': LEVEL_NOTE,
            'technique': technique,
        })
    manifest = {
        'version': 1,
        'setup_cmd': ('/venv/bin/pip install -q --no-index --find-links '
                      '/opt/veriftools/wheels --target /verif/.deps icontract '
                      '&& /venv/bin/python -c "import sys; '
                      "sys.path[:0]=['/verif','/verif/.deps']; import icontract; "
                      'from vt import shim; shim.setup(); print(\'setup ok\')"'),
        'hooks': {
            'guard': 'T4GC_VERIF',
            'enable': ('no source hook is needed: monitors are attached from the '
                       'harness (vt/monitors.py, sys.monitoring, audit hooks) in '
                       'worker processes started by ./check with T4GC_VERIF=1; '
                       '/repo is imported as is from its working tree'),
            'baseline_off_cmd': ('cd /repo && /venv/bin/python -m pytest -ra -q '
                                 '-p no:cacheprovider --timeout=900 '
                                 '--continue-on-collection-errors'),
            'source_commits': [],
            'add_only': True,
        },
        'engines': [{
            'name': 'vt',
            'path': '/verif/vt',
            'serves_properties': [c['property_id'] for c in checks],
            'kind_free_text': ('runtime monitoring harness: runs the real '
                               'converter in worker processes on generated '
                               'hostile decks; offline checkers over the recorded '
                               'boundary (deck, argv, stdout, exception, output) '
                               'against executable reference models; icontract '
                               'contracts and sys.monitoring reach counters on the '
                               'real functions'),
        }],
        'checks': checks,
        'notes': ('Exit 0 held / 1 VIOLATION / 2 INCONCLUSIVE (never folded into '
                  'held). known_findings.json lists recorded defects by mechanism. '
                  'VERIF_SEED, VERIF_TIER, VERIF_REPO, VERIF_JOBS are honoured.'),
        'not_applicable': [{'property_id': pid, 'reason': reason}
                           for pid, reason in sorted(PENDING.items())],
    }
    for pid in ids:
        if pid not in CHECKS and pid not in PENDING:
            manifest['not_applicable'].append(
                {'property_id': pid,
                 'reason': 'check not built yet (in progress, see DESIGN.md '
                           'section 3); applicable to this technique family'})
    with open('MANIFEST.json', 'w') as fil:
        json.dump(manifest, fil, indent=1)


if __name__ == '__main__':
    main()
