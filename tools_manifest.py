#!/usr/bin/env python3
'''Regenerate MANIFEST.json from the table below (keeps it valid at all
times).  Run: python3 tools_manifest.py'''
import json

LEVEL_NOTE = ('Trusted base: the MCNP reference semantics in vt/mcnp_ref.py and '
              'vt/model.py (my reading of the MCNP manual), the TRIPOLI-4 '
              'evaluator vt/t4eval.py (conventions of Oracle/src/explainT4.cc), '
              'TatSu 5.24.0 with the harness-side _is_protocol shim, NumPy. '
              'Holds only for the executions observed.')

REGION = ('runtime monitoring: offline region-agreement checker over recorded '
          'conversions vs an executable reference model')

CHECKS = {
    'C02': ('exploration',
            'Runs the real converter on generated one-surface decks for every '
            'mnemonic and parameter family and compares, at thousands of probe '
            'points per deck (uniform + pairs straddling every boundary of '
            'either side at 1e-3), the cell each point belongs to in the written '
            'file with the sign of the MCNP card equation. Held = no disagreeing '
            'judged probe on the decks explored; not a proof over all parameter '
            'vectors.',
            REGION, '3 C02'),
    'C01': ('exploration',
            'Runs the real converter on generated universe-free decks covering '
            'every Boolean rewriting path (complements of cells and expressions, '
            'union helper planes, largest-intersection extraction, pruning, '
            'flattening) and compares per probe point the set of non-virtual '
            'volumes holding it with the set of MCNP cells (importance non-zero) '
            'whose region holds it; also every non-virtual VOLU number must be a '
            'live cell number. Held on the decks and points explored.',
            REGION, '3 C01'),
    'C03': ('exploration',
            'Same oracle on one-macrobody decks with cells -b, +b, +b.k, -b.k for '
            'every facet of every body kind/parameterisation, against inside '
            'predicates and MCNP facet numbering written from the manual.',
            REGION, '3 C03'),
    'C04': ('exploration',
            'Same oracle on decks where one object is moved through every attach '
            'point (TR number on the card, TRCL by number/inline 3,12,13/starred, '
            'implicit 1000*cell+surface) x rotation class x TR spelling; the '
            'reference moves the untransformed object by main = O + B^T aux.',
            REGION + '; rotation-completion contracts on the real normalize_* '
            'functions', '3 C04'),
}

PENDING = {}


def main():
    ids = [f'C{n:02d}' for n in range(1, 19)]
    checks = []
    for pid in ids:
        if pid not in CHECKS:
            continue
        level, text, technique, ref = CHECKS[pid]
        checks.append({
            'property_id': pid,
            'quick_cmd': f'./check {pid} --tier quick',
            'thorough_cmd': f'./check {pid} --tier thorough',
            'evidence_file': f'/verif/evidence/{pid}.json',
            'replay_cmd_template': f'./check {pid} --replay {{path}}',
            'engine': 'vt',
            'level_claimed': {'category': level, 'text': text,
                              'design_ref': f'DESIGN.md section {ref}'},
            'level_note': LEVEL_NOTE,
            'technique': technique,
        })
    manifest = {
        'version': 1,
        'setup_cmd': ('/venv/bin/pip install -q --no-index --find-links '
                      '/opt/veriftools/wheels --target /verif/.deps icontract '
                      '&& /venv/bin/python -c "import sys; '
                      "sys.path[:0]=['/verif','/verif/.deps']; import icontract; "
                      'from vt import shim; shim.setup(); print(\'setup ok\')"'),
        'hooks': {
            'guard': 'T4GC_VERIF',
            'enable': ('no source hook is needed: monitors are attached from the '
                       'harness (vt/monitors.py, sys.monitoring, audit hooks) in '
                       'worker processes started by ./check with T4GC_VERIF=1; '
                       '/repo is imported as is from its working tree'),
            'baseline_off_cmd': ('cd /repo && /venv/bin/python -m pytest -ra -q '
                                 '-p no:cacheprovider --timeout=900 '
                                 '--continue-on-collection-errors'),
            'source_commits': [],
            'add_only': True,
        },
        'engines': [{
            'name': 'vt',
            'path': '/verif/vt',
            'serves_properties': [c['property_id'] for c in checks],
            'kind_free_text': ('runtime monitoring harness: runs the real '
                               'converter in worker processes on generated '
                               'hostile decks; offline checkers over the recorded '
                               'boundary (deck, argv, stdout, exception, output) '
                               'against executable reference models; icontract '
                               'contracts and sys.monitoring reach counters on the '
                               'real functions'),
        }],
        'checks': checks,
        'notes': ('Exit 0 held / 1 VIOLATION / 2 INCONCLUSIVE (never folded into '
                  'held). known_findings.json lists recorded defects by mechanism. '
                  'VERIF_SEED, VERIF_TIER, VERIF_REPO, VERIF_JOBS are honoured.'),
        'not_applicable': [{'property_id': pid, 'reason': reason}
                           for pid, reason in sorted(PENDING.items())],
    }
    for pid in ids:
        if pid not in CHECKS and pid not in PENDING:
            manifest['not_applicable'].append(
                {'property_id': pid,
                 'reason': 'check not built yet (in progress, see DESIGN.md '
                           'section 3); applicable to this technique family'})
    with open('MANIFEST.json', 'w') as fil:
        json.dump(manifest, fil, indent=1)


if __name__ == '__main__':
    main()
