#!/usr/bin/env python3
'''Work with the seeded breaking changes kept under /verif/seeded/<id>/.

  tools/seeded.py import <worktree> <id> <property>   copy _seed/ of a sub-agent worktree
  tools/seeded.py confirm <id>    apply to a scratch copy of /repo: test suite counts + demo on both trees
  tools/seeded.py run <id> [props...] [--tier quick]   run checks against the patched scratch copy
  tools/seeded.py all [first-id] [--tier quick]        run every seeded change (from first-id on) against its property's check
'''
import json
import os
import shutil
import subprocess
import sys
import tempfile

VERIF = os.path.dirname(os.path.dirname(os.path.abspath(__file__)))
SEEDED = os.path.join(VERIF, 'seeded')


def scratch_copy(patch=None):
    tmp = tempfile.mkdtemp(prefix='vt-seed-', dir='/dev/shm')
    dst = os.path.join(tmp, 'repo')
    subprocess.run(['git', '-C', '/repo', 'worktree', 'add', '--detach', dst,
                    'HEAD'], check=True, capture_output=True)
    if patch:
        res = subprocess.run(['git', '-C', dst, 'apply', '--whitespace=nowarn',
                              patch], capture_output=True, text=True)
        if res.returncode != 0:
            res = subprocess.run(['git', '-C', dst, 'apply', '--3way',
                                  '--whitespace=nowarn', patch],
                                 capture_output=True, text=True)
        if res.returncode != 0:
            drop(tmp)
            raise RuntimeError(f'patch does not apply: {res.stderr}')
    return tmp, dst


def drop(tmp):
    dst = os.path.join(tmp, 'repo')
    subprocess.run(['git', '-C', '/repo', 'worktree', 'remove', '--force', dst],
                   capture_output=True)
    shutil.rmtree(tmp, ignore_errors=True)
    subprocess.run(['git', '-C', '/repo', 'worktree', 'prune'],
                   capture_output=True)


def cmd_import(worktree, sid, prop):
    src = os.path.join(worktree, '_seed')
    dst = os.path.join(SEEDED, sid)
    os.makedirs(dst, exist_ok=True)
    for name in os.listdir(src):
        path = os.path.join(src, name)
        if os.path.isfile(path) and os.path.getsize(path) < 200000:
            shutil.copy(path, os.path.join(dst, name))
    meta = {'id': sid, 'property': prop, 'needs': '', 'ran': []}
    with open(os.path.join(dst, 'meta.json'), 'w') as fil:
        json.dump(meta, fil, indent=1)
    print('imported to', dst)


def cmd_confirm(sid):
    sdir = os.path.join(SEEDED, sid)
    patch = os.path.join(sdir, 'patch.diff')
    demo = os.path.join(sdir, 'demo.py')
    tmp, dst = scratch_copy(patch)
    tmp0, dst0 = scratch_copy(None)
    try:
        for _attempt in range(4):
            # test_normalized / test_adjust_matrix / test_intersection are
            # flaky on the pinned snapshot as well (hypothesis): a 130/48 run
            # is repeated
            # (a fresh example database per attempt: a failing example that
            # was saved would be replayed first by the next attempt)
            hyp = tempfile.mkdtemp(prefix='hyp-', dir=tmp)
            res = subprocess.run(['/venv/bin/python', '-m', 'pytest', '-q',
                                  '-p', 'no:cacheprovider', '--timeout=900',
                                  '--continue-on-collection-errors'], cwd=dst,
                                 capture_output=True, text=True,
                                 env=dict(os.environ,
                                          HYPOTHESIS_STORAGE_DIRECTORY=hyp))
            counts = res.stdout.strip().split('\n')[-1]
            if '49 passed' in counts and '129 failed' in counts:
                break
        bad = subprocess.run(['/venv/bin/python', demo, dst], cwd=tmp,
                             capture_output=True, text=True, timeout=600)
        good = subprocess.run(['/venv/bin/python', demo, dst0], cwd=tmp0,
                              capture_output=True, text=True, timeout=600)
        print(f'{sid}: tests: {counts}')
        print(f'{sid}: demo on patched tree exit={bad.returncode}; on '
              f'unpatched tree exit={good.returncode}')
        ok = ('49 passed' in counts and '129 failed' in counts
              and bad.returncode == 1 and good.returncode == 0)
        print(f'{sid}: {"CONFIRMED" if ok else "NOT CONFIRMED"}')
        if not ok:
            print(bad.stdout[-600:], bad.stderr[-600:])
            print(good.stdout[-600:], good.stderr[-600:])
        return ok, counts
    finally:
        drop(tmp)
        drop(tmp0)


def cmd_run(sid, props, tier='quick', seed='1'):
    sdir = os.path.join(SEEDED, sid)
    with open(os.path.join(sdir, 'meta.json')) as fil:
        meta = json.load(fil)
    # (a change made for one property may only be visible to the check of
    # the property that covers its mechanism: meta.json says so)
    props = props or meta.get('check_with') or [meta['property']]
    tmp, dst = scratch_copy(os.path.join(sdir, 'patch.diff'))
    results = {}
    try:
        for pid in props:
            env = dict(os.environ, VERIF_REPO=dst, VERIF_SEED=seed)
            res = subprocess.run([os.path.join(VERIF, 'check'), pid, '--tier',
                                  tier, '--no-evidence'], env=env,
                                 capture_output=True, text=True)
            caught = res.returncode == 1 and 'VIOLATION' in res.stdout
            kinds = sorted({ln.split('kind=')[1].split()[0]
                            for ln in res.stdout.split('\n')
                            if 'violation kind=' in ln})
            results[pid] = (caught, res.returncode, kinds)
            print(f'{sid} vs {pid} ({tier}): '
                  f'{"caught " + str(kinds) if caught else "MISSED exit=" + str(res.returncode)}')
            sys.stdout.flush()
    finally:
        drop(tmp)
        shutil.rmtree(os.path.join(VERIF, 'replay'), ignore_errors=True)
    return results


def main():
    args = sys.argv[1:]
    tier = 'quick'
    seed = '1'
    if '--seed' in args:
        k = args.index('--seed')
        seed = args[k + 1]
        del args[k:k + 2]
    if '--tier' in args:
        k = args.index('--tier')
        tier = args[k + 1]
        del args[k:k + 2]
    if args[0] == 'import':
        cmd_import(*args[1:4])
    elif args[0] == 'confirm':
        cmd_confirm(args[1])
    elif args[0] == 'run':
        cmd_run(args[1], args[2:], tier, seed)
    elif args[0] == 'all':
        missed, stale, superseded = [], [], []
        start = args[1] if len(args) > 1 else ''
        for sid in sorted(os.listdir(SEEDED)):
            mpath = os.path.join(SEEDED, sid, 'meta.json')
            if not os.path.exists(mpath) or sid < start:
                continue
            with open(mpath) as fil:
                if json.load(fil).get('superseded'):
                    # a later repair of /repo made this change harmless
                    superseded.append(sid)
                    continue
            try:
                res = cmd_run(sid, [], tier, seed)
            except RuntimeError as err:
                print(f'{sid}: STALE {str(err)[:200]}')
                stale.append(sid)
                continue
            if not any(v[0] for v in res.values()):
                missed.append(sid)
        print('SUPERSEDED:', superseded)
        print('STALE:', stale)
        print('MISSED:', missed)


if __name__ == '__main__':
    main()
