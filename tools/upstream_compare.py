#!/usr/bin/env python3
'''One-off tool: convert every upstream .imcnp deck with the pristine
snapshot (git worktree of the first commit) and with the current tree, and
report which outputs differ.  Usage: /venv/bin/python tools/upstream_compare.py'''
import json
import os
import subprocess
import sys
import tempfile

VERIF = os.path.dirname(os.path.dirname(os.path.abspath(__file__)))
CODE = r'''
import sys, json, os, io, contextlib
sys.path.insert(0, %r)
from vt import shim
shim.setup()
sys.path.insert(0, shim.REPO)
from t4_geom_convert.IntegrationTests.test_mcnp_conversion import get_options
from pathlib import Path
data = Path(shim.REPO) / 't4_geom_convert/IntegrationTests/data'
res = {}
with shim.Workdir() as w:
    for deck in sorted(data.glob('*.imcnp')):
        opts, _, _, _ = get_options(deck)
        try:
            text = deck.read_text()
        except UnicodeDecodeError:
            text = deck.read_text(encoding='latin1')
        run = shim.convert(w, text, opts)
        res[deck.name] = run.output if run.ok else 'EXC ' + run.brief()
json.dump(res, open(sys.argv[1], 'w'))
''' % VERIF


def run(repo, out):
    env = dict(os.environ, VERIF_REPO=repo, PYTHONPATH=VERIF)
    subprocess.run(['/venv/bin/python', '-c', CODE, out], env=env, check=True)


def main():
    tmp = tempfile.mkdtemp(prefix='vt-up-', dir='/dev/shm')
    base = os.path.join(tmp, 'pristine')
    first = subprocess.run(['git', '-C', '/repo', 'rev-list', '--max-parents=0',
                            'HEAD'], capture_output=True, text=True).stdout.strip()
    subprocess.run(['git', '-C', '/repo', 'worktree', 'add', '--detach', base,
                    first], check=True, capture_output=True)
    try:
        run(base, os.path.join(tmp, 'a.json'))
        run('/repo', os.path.join(tmp, 'b.json'))
        a = json.load(open(os.path.join(tmp, 'a.json')))
        b = json.load(open(os.path.join(tmp, 'b.json')))
        ndiff = 0
        for name in sorted(a):
            la = [l for l in a[name].split('\n') if not l.startswith('//')]
            lb = [l for l in b[name].split('\n') if not l.startswith('//')]
            if la != lb:
                ndiff += 1
                print('DIFF', name)
                for x, y in zip(la, lb):
                    if x != y:
                        print('   -', x[:150])
                        print('   +', y[:150])
                        break
        print(f'{len(a)} decks, {ndiff} differ, '
              f"{sum(1 for v in b.values() if v.startswith('EXC'))} raise now, "
              f"{sum(1 for v in a.values() if v.startswith('EXC'))} raised before")
    finally:
        subprocess.run(['git', '-C', '/repo', 'worktree', 'remove', '--force',
                        base], capture_output=True)
        subprocess.run(['rm', '-rf', tmp])


if __name__ == '__main__':
    main()
